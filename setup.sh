#!/bin/sh
# Offline setup: Hypothesis must be importable by /venv/bin/python (it already is on this image); atheris (thorough tier of
# C12 only) is installed into ./.deps from the offline wheelhouse.
set -e
cd "$(dirname "$0")"
if ! /venv/bin/python -c "import hypothesis" 2>/dev/null; then
  PIP_NO_INDEX=1 /venv/bin/pip install --no-index --find-links /opt/veriftools/wheels hypothesis
fi
if [ ! -d .deps/atheris ]; then
  PIP_NO_INDEX=1 /venv/bin/pip install -q --no-index --find-links /opt/veriftools/wheels --target .deps atheris 2>/dev/null || echo "note: atheris not installed (C12 thorough tier will skip coverage-guided fuzzing)"
fi
/venv/bin/python -c "import hypothesis, marko, flowmark; print('setup ok: hypothesis', hypothesis.__version__)"
mkdir -p out evidence
