#!/bin/sh
# Offline setup: make sure Hypothesis is importable by /venv/bin/python (it already is on this image).
set -e
cd "$(dirname "$0")"
if ! /venv/bin/python -c "import hypothesis" 2>/dev/null; then
  PIP_NO_INDEX=1 /venv/bin/pip install --no-index --find-links /opt/veriftools/wheels hypothesis
fi
/venv/bin/python -c "import hypothesis, marko, flowmark; print('setup ok: hypothesis', hypothesis.__version__)"
mkdir -p out evidence
