#!/bin/sh
# tools/seeded_all.sh [name-prefix]: re-runs every seeded change under seeded/ against the checks recorded in its meta.json
# (tools/import_seeded.py does the work and rewrites meta.json); prints one summary line per change.
cd "$(dirname "$0")/.."
for d in seeded/${1:-}*/; do
  n=$(basename "$d")
  prop=$(/venv/bin/python -c "import json,sys;m=json.load(open('$d/meta.json'));print(m.get('breaks_property','?'))")
  ids=$(/venv/bin/python -c "import json,sys;m=json.load(open('$d/meta.json'));print(' '.join(m.get('caught_by',{}).keys()))")
  out=$(timeout 1800 tools/import_seeded.py "$d" "$n" "$prop" $ids 2>&1 | grep -E "^(PATCH|C[0-9]+ tier)" | sed -E 's/evaluations=[0-9]+ distinct_nontrivial=[0-9]+ //' | tr '\n' ';')
  echo "$n: $out"
done
