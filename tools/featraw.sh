#!/bin/sh
# tools/featraw.sh <ID> <base> <feature> [n]: raw failing examples (inputs/outputs) with base+feature
ID="$1"; BASE="$2"; F="$3"; N="${4:-40}"
cd "$(dirname "$0")/.."
VERIF_ONLY=documents VERIF_FEAT="$BASE,$F" VERIF_MAXBUCKETS=40 VERIF_NOSHRINK=1 ./check "$ID" --tier quick --no-evidence --budget 25 2>&1 | grep -v "^KNOWN" | grep -A6 "^FAIL" | cut -c1-700 | head -$N
