#!/bin/sh
# tools/seeded.sh <seed-dir (patch.diff, demo.py)> <ID> [ID...]
# Confirms the seeded change in a scratch copy of /repo (tests pass, demo fails with it and passes without it), then runs the quick checks.
SD="$1"; shift
SCR="/tmp/seeded.$$"
rm -rf "$SCR"; mkdir -p "$SCR"
(cd /repo && git archive HEAD | tar -x -C "$SCR")
cd "$SCR" || exit 2
PYTHONPATH="$SCR/src" /venv/bin/python "$SD/demo.py" >/dev/null 2>&1; echo "demo on unmodified tree: exit $?"
if ! patch -p1 -s < "$SD/patch.diff"; then echo "PATCH DOES NOT APPLY"; rm -rf "$SCR"; exit 3; fi
PYTHONPATH="$SCR/src" /venv/bin/python "$SD/demo.py" >/dev/null 2>&1; echo "demo on changed tree:    exit $?"
PYTHONPATH="$SCR/src" /venv/bin/python -m pytest -q -p no:cacheprovider -x 2>&1 | tail -1
cd /verif
for ID in "$@"; do
  VERIF_REPO="$SCR" ./check "$ID" --tier quick --no-evidence 2>&1 | grep -E "^(C[0-9]+ tier|FAIL bucket|HARNESS)" | cut -c1-160
done
rm -rf "$SCR"
