#!/bin/sh
# tools/triage.sh <ID> <feat,feat,...> [budget]  -- exploration aid: run a check's generated tier with a chosen feature set
cd "$(dirname "$0")/.."
VERIF_FEAT="$2" VERIF_MAXBUCKETS=30 ./check "$1" --tier quick --no-evidence --budget "${3:-30}" 2>&1 | grep -v "^VIOLATION\|^KNOWN" | cut -c1-700
