#!/usr/bin/env python3
"""tools/import_seeded.py <src-dir> <name> <property> <check-id> [<check-id>...]
Copies a sub-agent's seeded change (patch.diff, demo.py, notes.md) to /verif/seeded/<name>/, confirms it in a scratch copy of
/repo and records in meta.json what was run and which checks caught it."""
import json, subprocess, sys, shutil
from pathlib import Path

src, name, prop, *checks = sys.argv[1:]
root = Path(__file__).resolve().parent.parent
dst = root / "seeded" / name
dst.mkdir(parents=True, exist_ok=True)
for f in ("patch.diff", "demo.py", "notes.md"):
    if (Path(src) / f).exists():
        if (Path(src) / f).resolve() != (dst / f).resolve():
            shutil.copy(Path(src) / f, dst / f)
out = subprocess.run([str(root / "tools" / "seeded.sh"), str(dst), *checks], capture_output=True, text=True).stdout
print(out)
lines = out.splitlines()
caught = {}
cur = []
for l in lines:
    if l.startswith("FAIL bucket="):
        cur.append(l[len("FAIL bucket="):])
    elif l[:1] == "C" and " tier=" in l:
        cid = l.split()[0]
        nviol = int(l.split("violations=")[1].split()[0])
        caught[cid] = {"violations": nviol, "buckets": cur}
        cur = []
notes = (dst / "notes.md").read_text() if (dst / "notes.md").exists() else ""
meta = {
    "breaks_property": prop,
    "needs_to_manifest": notes.strip()[:1500],
    "confirmed": {
        "demo_on_unmodified_tree": next((l for l in lines if l.startswith("demo on unmodified")), ""),
        "demo_on_changed_tree": next((l for l in lines if l.startswith("demo on changed")), ""),
        "repo_test_suite_with_change": next((l for l in lines if "passed" in l or "failed" in l), ""),
    },
    "ran": [f"tools/seeded.sh seeded/{name} {' '.join(checks)}  (scratch copy of /repo HEAD + patch; quick tier, VERIF_SEED=1)"],
    "caught_by": {k: v for k, v in caught.items()},
    "source": "independent sub-agent given only the property text and a scratch worktree",
}
(dst / "meta.json").write_text(json.dumps(meta, indent=1) + "\n")
