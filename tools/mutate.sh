#!/bin/sh
# tools/mutate.sh <check-id> <file-relative-to-repo> <python-expr-old> <new>   (literal string replace in a scratch copy of /repo)
# Runs the quick tier of the check against the mutated copy; prints the verdict line. Never touches /repo.
ID="$1"; FILE="$2"; OLD="$3"; NEW="$4"
SCR="/tmp/mut.$$"
rm -rf "$SCR"; mkdir -p "$SCR"; cp -r /repo/src "$SCR/src"
/venv/bin/python - "$SCR/$FILE" "$OLD" "$NEW" <<'PY' || { rm -rf "$SCR"; exit 2; }
import sys
p, old, new = sys.argv[1:4]
s = open(p).read()
if old not in s:
    print("MUTATION-NOT-APPLICABLE: pattern not found", file=sys.stderr); sys.exit(1)
open(p, "w").write(s.replace(old, new, 1))
PY
cd "$(dirname "$0")/.." && VERIF_REPO="$SCR" timeout 600 ./check "$ID" --tier quick --no-evidence ${MUT_BUDGET:+--budget $MUT_BUDGET} 2>&1 | grep -E "^(VIOLATION|C[0-9]+ tier|HARNESS|FAIL bucket)" | cut -c1-200
rm -rf "$SCR"
