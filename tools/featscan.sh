#!/bin/sh
# tools/featscan.sh <ID> <base,features> <candidate features...>: for each candidate run base+candidate, report failing buckets
ID="$1"; BASE="$2"; shift 2
cd "$(dirname "$0")/.."
for f in "$@"; do
  b=$(VERIF_ONLY=documents VERIF_FEAT="$BASE,$f" VERIF_MAXBUCKETS=40 VERIF_NOSHRINK=1 ./check "$ID" --tier quick --no-evidence --budget 20 2>&1 | grep -E "^FAIL bucket" | sed 's/FAIL bucket=//' | tr '\n' ';' | cut -c1-700)
  echo "$f: $b"
done
