"""Extraction of the non-prose ("literal") spans of a document, used by C04, C08 and C09.

tree_literals(doc)  : in-order list of literal records from a Marko tree (code blocks, code spans, inline HTML,
                      autolinks/URLs, link and image destination+title, definitions, footnote labels)
tag_spans(text)     : (start, end) spans of template tags / HTML comments in a text, found by an own scanner (not
                      flowmark's regex); a span never crosses a blank line
"""

from __future__ import annotations

import re

from marko import block, inline
from marko.ext import footnote
from marko.ext.gfm import elements as gfm

_WS = re.compile(r"\s+")


def ws(s: str) -> str:
    return _WS.sub(" ", s)


def _unquote_title(t):
    """Marko keeps the raw delimiters on link *definition* titles; compare the content."""
    if t is None:
        return None
    if len(t) >= 2 and ((t[0] == t[-1] and t[0] in "\"'") or (t[0] == "(" and t[-1] == ")")):
        t = t[1:-1]
    return re.sub(r"\\(.)", r"\1", t)


def tree_literals(node, out=None, titles_unquoted: bool = True):
    if out is None:
        out = []
    if isinstance(node, (block.FencedCode, block.CodeBlock)):
        out.append(("codeblock", getattr(node, "lang", ""), getattr(node, "extra", ""), node.children[0].children.rstrip("\n")))
        return out
    if isinstance(node, block.LinkRefDef):
        out.append(("def", node.label, node.dest, _unquote_title(node.title) if titles_unquoted else node.title))
        return out
    if isinstance(node, inline.CodeSpan):
        out.append(("codespan", ws(node.children)))
        return out
    if isinstance(node, inline.InlineHTML):
        out.append(("html", ws(node.children)))
        return out
    if isinstance(node, gfm.Url):
        out.append(("url", node.dest))
        return out
    if isinstance(node, inline.AutoLink):
        out.append(("autolink", node.dest))
        return out
    if isinstance(node, footnote.FootnoteRef):
        out.append(("fnref", node.label))
        return out
    if isinstance(node, inline.Image):
        out.append(("img", node.dest, node.title))
    elif isinstance(node, inline.Link):
        out.append(("link", node.dest, node.title))
    elif isinstance(node, footnote.FootnoteDef):
        out.append(("fndef", node.label))
    ch = getattr(node, "children", None)
    if isinstance(ch, list):
        for c in ch:
            tree_literals(c, out, titles_unquoted)
    return out


_OPENERS = (("{%", "%}"), ("{#", "#}"), ("{{", "}}"), ("<!--", "-->"))
_BLANK = re.compile(r"\n[ \t>]*\n")


def tag_spans(text: str) -> list[tuple[int, int]]:
    """Non-overlapping tag/comment spans, leftmost first; the closer is the first one after the opener; a span is
    dropped if it would contain a blank line (possibly with quote markers)."""
    spans = []
    i, n = 0, len(text)
    while i < n:
        best = None
        for op, cl in _OPENERS:
            j = text.find(op, i)
            if j >= 0 and (best is None or j < best[0]):
                best = (j, op, cl)
        if best is None:
            break
        j, op, cl = best
        k = text.find(cl, j + len(op))
        if k < 0:
            i = j + len(op)
            continue
        end = k + len(cl)
        if _BLANK.search(text, j, end):
            i = j + len(op)
            continue
        spans.append((j, end))
        i = end
    return spans


def tags_of(text: str) -> list[str]:
    return [ws(text[a:b]) for a, b in tag_spans(text)]
