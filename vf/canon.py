"""Canonical semantic form of a Marko/flowmark document tree (DESIGN §2.3).

Compared: block kinds, order and nesting; heading levels; list kind, bullet char / start number; task state; quote vs
alert(type); code lang/extra/content; table alignments and cells; rules; definitions (label, dest, title content);
footnote labels; inline structure (em/strong/del/link/img/code/html/autolink/url/fnref/hard break) and text up to runs of
whitespace and Marko's CJK-Latin spacing. NOT compared: blank lines / list tightness (unless tight=True), ordered-list
delimiter, bullet-list marker is compared, title quote style.
"""

from __future__ import annotations

import re
from textwrap import dedent

from marko import block, inline
from marko.ext import footnote
from marko.ext.gfm import elements as gfm
from marko.ext.pangu import PANGU_RE

_WS = re.compile(r"\s+")


def read_in(text: str):
    """flowmark's documented reading of its *input*: frontmatter split, CRLF, dedent, strip, tag-line blank lines."""
    from flowmark.formats.flowmark_markdown import flowmark_markdown
    from flowmark.formats.frontmatter import split_frontmatter
    from flowmark.linewrapping.tag_handling import preprocess_tag_block_spacing

    fm, content = split_frontmatter(text)
    if fm:
        text = content
    text = dedent(text.replace("\r\n", "\n")).strip()
    text = text.strip() + "\n"
    text = preprocess_tag_block_spacing(text)
    return fm, flowmark_markdown().parse(text)


def parse(text: str):
    return read_in(text)


def read_out(text: str):
    """A plain reader for *outputs*: the same GFM parser, no flowmark pre-processing (other tools read the output)."""
    from flowmark.formats.flowmark_markdown import flowmark_markdown

    return flowmark_markdown().parse(text)


def ws(s: str) -> str:
    s = re.sub(PANGU_RE, " ", s)
    return _WS.sub(" ", s)


def _title(t):
    """Titles are text: compared up to runs of whitespace (a title may be wrapped onto the next line)."""
    return t if t is None else _WS.sub(" ", t)


def _def_title(t):
    """Marko keeps the raw delimiter pair on link *definition* titles."""
    if t is None:
        return None
    if len(t) >= 2 and ((t[0] == t[-1] and t[0] in "\"'") or (t[0] == "(" and t[-1] == ")")):
        t = t[1:-1]
    return _WS.sub(" ", re.sub(r"\\([!-/:-@\[-`{-~])", r"\1", t))


def canon_inlines(children) -> tuple:
    out: list = []

    def text(s: str) -> None:
        if out and isinstance(out[-1], str):
            out[-1] += s
        else:
            out.append(s)

    for c in children:
        if isinstance(c, inline.RawText):
            text(c.children)
        elif isinstance(c, inline.Literal):
            text(c.children)
        elif isinstance(c, inline.LineBreak):
            if c.soft:
                text(" ")
            else:
                out.append(("br",))
        elif isinstance(c, inline.CodeSpan):
            out.append(("code", _WS.sub(" ", c.children).strip()))
        elif isinstance(c, inline.InlineHTML):
            out.append(("html", _WS.sub(" ", c.children)))
        elif isinstance(c, gfm.Url):
            out.append(("url", c.dest))
        elif isinstance(c, inline.AutoLink):
            out.append(("autolink", c.dest))
        elif isinstance(c, inline.StrongEmphasis):
            out.append(("strong", canon_inlines(c.children)))
        elif isinstance(c, inline.Emphasis):
            out.append(("em", canon_inlines(c.children)))
        elif isinstance(c, gfm.Strikethrough):
            out.append(("del", canon_inlines(c.children)))
        elif isinstance(c, inline.Image):
            out.append(("img", c.dest, _title(c.title), canon_inlines(c.children)))
        elif isinstance(c, inline.Link):
            out.append(("link", c.dest, _title(c.title), canon_inlines(c.children)))
        elif isinstance(c, footnote.FootnoteRef):
            out.append(("fnref", c.label))
        else:
            out.append(("?", type(c).__name__, repr(getattr(c, "children", None))))
    return finish_inlines(out)


def finish_inlines(out: list) -> tuple:
    """Normalise a list of inline items in which plain text is a bare str: collapse whitespace, trim the ends and
    around hard breaks, and wrap text as ("t", str) so that text is distinguishable from literal fields."""
    res = [ws(o) if isinstance(o, str) else o for o in out]
    if res and isinstance(res[0], str):
        res[0] = res[0].lstrip()
    if res and isinstance(res[-1], str):
        res[-1] = res[-1].rstrip()
    for i, o in enumerate(res):
        if o == ("br",):
            if i > 0 and isinstance(res[i - 1], str):
                res[i - 1] = res[i - 1].rstrip()
            if i + 1 < len(res) and isinstance(res[i + 1], str):
                res[i + 1] = res[i + 1].lstrip()
    return tuple(("t", o) if isinstance(o, str) else o for o in res if o != "")


def map_text(node, fn):
    """Apply fn to every ("t", str) leaf of a canonical tree."""
    if isinstance(node, tuple):
        if len(node) == 2 and node[0] == "t" and isinstance(node[1], str):
            return ("t", fn(node[1]))
        return tuple(map_text(c, fn) for c in node)
    return node


def canon_block(b, tight: bool = False):
    if isinstance(b, block.BlankLine):
        return None
    if isinstance(b, (block.Heading, block.SetextHeading)):
        return ("h", b.level, canon_inlines(b.children))
    if isinstance(b, block.Paragraph):
        return ("p", getattr(b, "checked", None), canon_inlines(b.children))
    if isinstance(b, block.List):
        items = tuple(canon_blocks(i.children, tight) for i in b.children)
        key = ("start", b.start) if b.ordered else ("bullet", b.bullet)
        return ("list", b.ordered, key, items) + ((("tight", b.tight),) if tight else ())
    if isinstance(b, gfm.Alert):
        return ("alert", b.alert_type, canon_blocks(b.children, tight))
    if isinstance(b, block.Quote):
        return ("quote", canon_blocks(b.children, tight))
    if isinstance(b, (block.FencedCode, block.CodeBlock)):
        return ("code", getattr(b, "lang", ""), getattr(b, "extra", ""), b.children[0].children.rstrip("\n"))
    if isinstance(b, block.ThematicBreak):
        return ("hr",)
    if isinstance(b, block.LinkRefDef):
        return ("def", b.label, b.dest, _def_title(b.title))
    if isinstance(b, footnote.FootnoteDef):
        return ("fndef", b.label, canon_blocks(b.children, tight))
    if isinstance(b, gfm.Table):
        aligns = tuple(c.align for c in b.children[0].children)
        return ("table", aligns, tuple(tuple(canon_inlines(c.children) for c in r.children) for r in b.children))
    if isinstance(b, block.HTMLBlock):
        return ("htmlblock", b.body)
    return ("?", type(b).__name__)


def canon_blocks(children, tight: bool = False) -> tuple:
    return tuple(x for x in (canon_block(c, tight) for c in children) if x is not None)


def canon_in(text: str, tight: bool = False) -> tuple:
    fm, d = read_in(text)
    return (fm, canon_blocks(d.children, tight))


def canon_out(text: str, tight: bool = False) -> tuple:
    """Canonical form of an output; a frontmatter block is split off the same way."""
    from flowmark.formats.frontmatter import split_frontmatter

    fm, content = split_frontmatter(text)
    body = content if fm else text
    return (fm, canon_blocks(read_out(body).children, tight))


def first_diff(a, b, path=()):
    """Path and values of the first difference between two canonical trees."""
    if type(a) is not type(b):
        return path, a, b
    if isinstance(a, tuple):
        for i, (x, y) in enumerate(zip(a, b)):
            d = first_diff(x, y, path + (i,))
            if d:
                return d
        if len(a) != len(b):
            n = min(len(a), len(b))
            return path + (n,), a[n:] , b[n:]
        return None
    return None if a == b else (path, a, b)
