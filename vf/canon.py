"""Exploratory canonical form of a flowmark/marko document tree."""
import re
from textwrap import dedent
from marko import block, inline
from marko.ext import footnote
from marko.ext.gfm import elements as gfm
from flowmark.formats.flowmark_markdown import flowmark_markdown
from flowmark.formats.frontmatter import split_frontmatter
from flowmark.linewrapping.tag_handling import preprocess_tag_block_spacing
from marko.ext.pangu import PANGU_RE

def parse(text):
    fm, content = split_frontmatter(text)
    if fm: text = content
    text = dedent(text).strip()
    text = text.strip() + "\n"
    text = preprocess_tag_block_spacing(text)
    return fm, flowmark_markdown().parse(text)

def ws(s):
    s = re.sub(PANGU_RE, " ", s)
    return re.sub(r"\s+", " ", s)

def canon_inlines(children):
    out = []
    def text(s):
        if out and isinstance(out[-1], str): out[-1] += s
        else: out.append(s)
    for c in children:
        if isinstance(c, inline.RawText): text(c.children)
        elif isinstance(c, inline.Literal): text(c.children)
        elif isinstance(c, inline.LineBreak):
            if c.soft: text(" ")
            else: out.append(("br",))
        elif isinstance(c, inline.CodeSpan): out.append(("code", ws(c.children)))
        elif isinstance(c, inline.InlineHTML): out.append(("html", ws(c.children)))
        elif isinstance(c, gfm.Url): out.append(("url", c.dest))
        elif isinstance(c, inline.AutoLink): out.append(("autolink", c.dest))
        elif isinstance(c, inline.StrongEmphasis): out.append(("strong", canon_inlines(c.children)))
        elif isinstance(c, inline.Emphasis): out.append(("em", canon_inlines(c.children)))
        elif isinstance(c, gfm.Strikethrough): out.append(("del", canon_inlines(c.children)))
        elif isinstance(c, inline.Image): out.append(("img", c.dest, c.title, canon_inlines(c.children)))
        elif isinstance(c, inline.Link): out.append(("link", c.dest, c.title, canon_inlines(c.children)))
        elif isinstance(c, footnote.FootnoteRef): out.append(("fnref", c.label))
        else: out.append(("?", type(c).__name__, repr(getattr(c, "children", None))))
    res = []
    for o in out:
        if isinstance(o, str):
            o = ws(o)
        res.append(o)
    # strip leading/trailing ws of the whole sequence
    if res and isinstance(res[0], str): res[0] = res[0].lstrip()
    if res and isinstance(res[-1], str): res[-1] = res[-1].rstrip()
    # whitespace adjacent to hard break is insignificant
    for i, o in enumerate(res):
        if o == ("br",):
            if i > 0 and isinstance(res[i-1], str): res[i-1] = res[i-1].rstrip()
            if i + 1 < len(res) and isinstance(res[i+1], str): res[i+1] = res[i+1].lstrip()
    return tuple(o for o in res if o != "")

def canon_block(b):
    if isinstance(b, block.BlankLine): return None
    if isinstance(b, (block.Heading, block.SetextHeading)): return ("h", b.level, canon_inlines(b.children))
    if isinstance(b, block.Paragraph):
        chk = getattr(b, "checked", None)
        return ("p", chk, canon_inlines(b.children))
    if isinstance(b, block.List):
        return ("list", b.ordered, b.start if b.ordered else b.bullet, b.tight, tuple(canon_blocks(i.children) for i in b.children))
    if isinstance(b, gfm.Alert): return ("alert", b.alert_type, canon_blocks(b.children))
    if isinstance(b, block.Quote): return ("quote", canon_blocks(b.children))
    if isinstance(b, (block.FencedCode, block.CodeBlock)):
        return ("code", getattr(b, "lang", ""), getattr(b, "extra", ""), b.children[0].children.rstrip("\n"))
    if isinstance(b, block.ThematicBreak): return ("hr",)
    if isinstance(b, block.LinkRefDef): return ("def", b.label, b.dest, b.title)
    if isinstance(b, footnote.FootnoteDef): return ("fndef", b.label, canon_blocks(b.children))
    if isinstance(b, gfm.Table):
        aligns = tuple(c.align for c in b.children[0].children)
        return ("table", aligns, tuple(tuple(canon_inlines(c.children) for c in r.children) for r in b.children))
    if isinstance(b, block.HTMLBlock): return ("htmlblock", b.body)
    return ("?", type(b).__name__)

def canon_blocks(children):
    return tuple(x for x in (canon_block(c) for c in children) if x is not None)

def canon_doc(text):
    fm, d = parse(text)
    return (fm, canon_blocks(d.children))
