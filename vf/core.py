"""Common machinery: sharded generated-input runner, shrinking, replay files, known findings, evidence.

Every property module (vf/props/cNN.py) exposes

    ID, LEVEL, RULE, ASSUMPTIONS, TECHNIQUE
    check_case(case: dict, note: Note) -> None | Failure      # pure function of the case + /repo tree
    shard_work(ctx: Ctx) -> None                              # generated tier for one shard
    SIGS: dict[str, callable(case, failure) -> bool]          # optional: known-finding signatures

A *case* is a JSON-serialisable dict that is completely self-contained, so that a replay file is
just {"property", "case", "expect", "failure"} and `./check <ID> --replay <file>` re-runs it through
check_case without Hypothesis.
"""

from __future__ import annotations

import hashlib
import json
import multiprocessing as mp
import os
import re
import sys
import time
import traceback
from collections import Counter
from dataclasses import dataclass, field
from pathlib import Path
from typing import Any, Callable

ROOT = Path(__file__).resolve().parent.parent
REPO = Path(os.environ.get("VERIF_REPO", "/repo"))
NSHARDS = int(os.environ.get("VERIF_SHARDS", "16"))


class HarnessError(Exception):
    """Something is wrong with the harness or environment (exit 2, never a violation)."""


def assert_repo_import() -> None:
    import flowmark

    f = str(Path(flowmark.__file__).resolve())
    want = str((REPO / "src").resolve())
    if not f.startswith(want):
        raise HarnessError(f"flowmark imported from {f}, expected under {want}")


# --------------------------------------------------------------------------------------------
# Failures, notes


@dataclass
class Failure:
    bucket: str  # short stable name of what failed (root-cause bucket as far as the oracle can tell)
    detail: str  # human-readable: observed vs expected
    data: dict = field(default_factory=dict)  # structured facts for known-finding signatures

    def to_json(self) -> dict[str, str]:
        return {"bucket": self.bucket, "detail": self.detail}


class Note:
    """Per-case annotations written by check_case (non-triviality, class labels)."""

    __slots__ = ("nontrivial", "labels")

    def __init__(self) -> None:
        self.nontrivial = False
        self.labels: list[str] = []

    def label(self, *names: str) -> None:
        self.labels.extend(names)


def case_hash(case: Any) -> int:
    s = json.dumps(case, sort_keys=True, ensure_ascii=True, default=str)
    return int.from_bytes(hashlib.sha1(s.encode()).digest()[:8], "big")


def is_repo_exception(exc: BaseException) -> bool:
    """True if the innermost frames of the traceback are inside flowmark or its libraries (so the
    exception was raised by the code under test, not by the harness)."""
    tb = traceback.extract_tb(exc.__traceback__)
    if not tb:
        return False
    for fr in reversed(tb):
        fn = fr.filename
        if "/vf/" in fn and str(ROOT) in fn:
            return False
        if "/src/flowmark/" in fn or "/marko/" in fn or "/strif/" in fn or "/pathspec/" in fn:
            return True
    return False


# --------------------------------------------------------------------------------------------
# Known findings


@dataclass
class KnownFinding:
    state: str  # "open" | "fixed"
    prop: str
    slug: str = ""
    disable: tuple[str, ...] = ()
    sig: str = ""
    replay: str = ""
    commit: str = ""
    what: str = ""


def load_known_findings(path: Path | None = None) -> list[KnownFinding]:
    path = path or (ROOT / "KNOWN_FINDINGS.txt")
    out: list[KnownFinding] = []
    if not path.exists():
        return out
    for raw in path.read_text().splitlines():
        line = raw.strip()
        if not line or line.startswith("#"):
            continue
        if line.startswith("open:"):
            head, _, what = line[5:].partition("::")
            kv = dict(tok.split("=", 1) for tok in head.split() if "=" in tok)
            out.append(
                KnownFinding(
                    "open",
                    kv["property"],
                    slug=kv.get("kf", ""),
                    disable=tuple(x for x in kv.get("disable", "").split(",") if x),
                    sig=kv.get("sig", ""),
                    replay=kv.get("replay", ""),
                    what=what.strip(),
                )
            )
        elif line.startswith("fixed:"):
            toks = line[6:].split()
            kv = dict(tok.split("=", 1) for tok in toks if "=" in tok)
            rest = [t for t in toks if "=" not in t]
            out.append(
                KnownFinding(
                    "fixed", kv.get("property", "?"), commit=rest[0] if rest else "", what=" ".join(rest[1:])
                )
            )
        else:
            raise HarnessError(f"KNOWN_FINDINGS.txt: cannot parse line: {raw!r}")
    return out


# --------------------------------------------------------------------------------------------
# Shard context


@dataclass
class ShardResult:
    evaluations: int = 0
    nontrivial: set[int] = field(default_factory=set)
    samples: list[Any] = field(default_factory=list)
    counters: Counter = field(default_factory=Counter)
    failures: list[tuple[str, str, Any]] = field(default_factory=list)  # (bucket, detail, case)
    harness_errors: list[str] = field(default_factory=list)
    exhaustive: list[str] = field(default_factory=list)
    budget_exhausted: bool = False


class StopShard(Exception):
    pass


class CaseTimeout(BaseException):
    pass


class case_alarm:
    """SIGALRM-based wall-clock guard around one case (the code under test looping forever must not hang the check)."""

    def __init__(self, seconds: int) -> None:
        self.seconds = seconds

    def __enter__(self):
        import signal

        def handler(signum, frame):
            raise CaseTimeout()

        try:
            self.old = signal.signal(signal.SIGALRM, handler)
            signal.alarm(self.seconds)
            self.armed = True
        except ValueError:  # not in the main thread
            self.armed = False
        return self

    def __exit__(self, *exc):
        import signal

        if self.armed:
            signal.alarm(0)
            signal.signal(signal.SIGALRM, self.old)
        return False


class Ctx:
    MAX_FAIL_PER_BUCKET = 3
    MAX_BUCKETS = 12

    def __init__(self, mod: Any, tier: str, seed: int, shard: int, nshards: int, kfs: list[KnownFinding], budget_s: float):
        self.mod = mod
        self.tier = tier
        self.seed = seed
        self.shard = shard
        self.nshards = nshards
        self.kfs = [k for k in kfs if k.prop == mod.ID and k.state == "open"]
        self.disabled: set[str] = set()
        for k in self.kfs:
            self.disabled.update(k.disable)
        self.res = ShardResult()
        self.t0 = time.monotonic()
        self.budget_s = budget_s
        self._sigs = getattr(mod, "SIGS", {})
        self._buckets: Counter = Counter()

    # -- budget
    def time_left(self) -> float:
        return self.budget_s - (time.monotonic() - self.t0)

    def out_of_budget(self) -> bool:
        if self.time_left() <= 0:
            self.res.budget_exhausted = True
            return True
        return False

    @property
    def quick(self) -> bool:
        return self.tier == "quick"

    def n(self, quick_total: int, thorough_total: int) -> int:
        """Per-shard share of a total case budget."""
        total = quick_total if self.quick else thorough_total
        return max(1, total // self.nshards)

    # -- one case
    def check(self, case: dict, domain: str = "") -> Failure | None:
        note = Note()
        self.res.evaluations += 1
        limit = int(getattr(self.mod, "CASE_TIMEOUT_S", 120))
        try:
            with case_alarm(limit):
                f = self.mod.check_case(case, note)
        except CaseTimeout:
            f = Failure("case-timeout", f"check_case did not finish within {limit}s of wall time for case {json.dumps(case, default=str)[:1500]}")
        except HarnessError:
            raise
        except RecursionError as e:
            f = Failure("exception:RecursionError", repr(e)[:300])
        except BaseException as e:  # noqa: BLE001
            if isinstance(e, (KeyboardInterrupt, SystemExit, StopShard)):
                raise
            if is_repo_exception(e):
                f = Failure(f"exception:{type(e).__name__}", "".join(traceback.format_exception_only(type(e), e)).strip()[:500])
            else:
                self.res.harness_errors.append("".join(traceback.format_exception(type(e), e, e.__traceback__))[-3000:])
                raise StopShard() from e
        c = self.res.counters
        if domain:
            c["domain:" + domain] += 1
        for lb in note.labels:
            c["class:" + lb] += 1
        if note.nontrivial:
            h = case_hash(case)
            if h not in self.res.nontrivial:
                self.res.nontrivial.add(h)
                if len(self.res.samples) < 4 and (len(self.res.nontrivial) % 7 == 1):
                    self.res.samples.append(case)
        if f is None:
            return None
        # known-finding signature?
        slug = sig_hit(self.mod, self.kfs, case, f)
        if slug:
            c["known_finding_hit:" + slug] += 1
            return None
        b = f.bucket
        if self._buckets[b] < self.MAX_FAIL_PER_BUCKET and len(self._buckets) < self.MAX_BUCKETS:
            self.res.failures.append((b, f.detail, case))
        self._buckets[b] += 1
        c["fail:" + b] += 1
        return f

    # -- drivers
    def run_hypothesis(self, domain: str, strategy: Any, n_examples: int, salt: int = 0) -> None:
        """Drive check_case with Hypothesis-generated cases. Failures are collected (not raised) so the
        search continues behind the first failure; shrinking is done afterwards by shrink_case()."""
        import hypothesis
        from hypothesis import HealthCheck, Phase, given, settings

        if n_examples <= 0 or self.out_of_budget():
            return
        hseed = (self.seed * 1000 + self.shard) * 97 + salt + (zlib_crc(domain) % 89)

        @hypothesis.seed(hseed)
        @settings(
            max_examples=n_examples,
            database=None,
            deadline=None,
            derandomize=False,
            phases=[Phase.generate],
            suppress_health_check=list(HealthCheck),
            report_multiple_bugs=False,
            print_blob=False,
        )
        @given(strategy)
        def run(case: Any) -> None:
            if self.out_of_budget():
                return
            self.check(case, domain)

        try:
            run()
        except StopShard:
            raise
        except hypothesis.errors.Unsatisfiable as e:
            self.res.harness_errors.append(f"generator for {domain} unsatisfiable: {e}")
            raise StopShard() from e

    def run_cases(self, domain: str, cases: Any, exhaustive: bool = False) -> None:
        """Drive check_case with an explicit iterable of cases (bounded-exhaustive sweeps; this shard's
        partition only)."""
        complete = True
        for i, case in enumerate(cases):
            if (i & 255) == 0 and self.out_of_budget():
                complete = False
                break
            self.check(case, domain)
        if exhaustive and complete:
            self.res.exhaustive.append(domain)
        elif exhaustive:
            self.res.counters["sweep_incomplete:" + domain] += 1


def split_top_level(text: str) -> list[str]:
    """Independent top-level chunks of a Markdown text: split at blank lines that are followed by an unindented line,
    outside fenced code (and after the frontmatter block, which stays with the first chunk)."""
    lines = text.split("\n")
    chunks: list[list[str]] = [[]]
    fence = None
    start = 0
    if lines and lines[0].strip() == "---":
        for j in range(1, len(lines)):
            if lines[j].strip() == "---":
                start = j + 1
                break
        chunks[0] = lines[:start]
    for i in range(start, len(lines)):
        l = lines[i]
        m = re.match(r"^(`{3,}|~{3,})", l)
        if m and fence is None:
            fence = m.group(1)[0] * len(m.group(1))
        elif fence is not None and re.match(r"^" + re.escape(fence[0]) + "{" + str(len(fence)) + r",}[ \t]*$", l):
            fence = None
        if fence is None and l.strip() == "" and i + 1 < len(lines) and lines[i + 1][:1] not in ("", " ", "\t") and any(x.strip() for x in chunks[-1]):
            chunks.append([])
            continue
        chunks[-1].append(l)
    out = ["\n".join(c).strip("\n") + "\n" for c in chunks if any(x.strip() for x in c)]
    return out


def sig_hit(mod: Any, kfs: list[KnownFinding], case: Any, f: Failure) -> str | None:
    """Slug of the open known finding of this property whose narrow signature matches the failure, if any. If none
    matches the whole case and the property module allows it (DECOMPOSE_KEY = name of the document text in the case), the
    document is split into independent top-level chunks: the failure counts as known if at least one chunk fails on its
    own and every failing chunk matches a signature (several recorded findings in one document)."""
    return _sig_hit_variants(mod, kfs, case, f, 0)


def _sig_hit_variants(mod: Any, kfs: list[KnownFinding], case: Any, f: Failure, depth: int) -> str | None:
    hit = _sig_hit_chunks(mod, kfs, case, f)
    variants = getattr(mod, "OPTION_VARIANTS", None)
    if hit or variants is None or depth >= 3:
        return hit
    # Two recorded findings in ONE paragraph, each needing a different option (say, smart quotes and semantic breaks):
    # with either option off the case must pass or show a recorded finding, and at least one variant must show one.
    slugs = []
    for sub in variants(case):
        try:
            f2 = mod.check_case(sub, Note())
        except HarnessError:
            raise
        except Exception:  # noqa: BLE001
            return None
        if f2 is None:
            continue
        h2 = _sig_hit_variants(mod, kfs, sub, f2, depth + 1)  # (a variant may itself still hold two findings)
        if h2 is None:
            return None
        slugs.append(h2)
    return slugs[0] if len(slugs) >= 2 else None


def _sig_hit_chunks(mod: Any, kfs: list[KnownFinding], case: Any, f: Failure) -> str | None:
    hit = _sig_hit_direct(mod, kfs, case, f)
    keys = getattr(mod, "DECOMPOSE_KEY", None)
    if hit or not keys or not isinstance(case, dict):
        return hit
    key = next((k for k in ((keys,) if isinstance(keys, str) else keys) if isinstance(case.get(k), str)), None)
    if key is None:
        return None
    parts = split_top_level(case[key])
    if len(parts) < 2:
        return None
    slugs = []
    for part in parts:
        sub = dict(case, **{key: part})
        try:
            f2 = mod.check_case(sub, Note())
        except HarnessError:
            raise
        except Exception:  # noqa: BLE001
            return None
        if f2 is None:
            continue
        h2 = _sig_hit_direct(mod, kfs, sub, f2)
        if h2 is None:
            return None
        slugs.append(h2)
    return slugs[0] if slugs else None


def _sig_hit_direct(mod: Any, kfs: list[KnownFinding], case: Any, f: Failure) -> str | None:
    sigs = getattr(mod, "SIGS", {})
    for k in kfs:
        if k.state != "open" or k.prop != mod.ID or not k.sig:
            continue
        pred = sigs.get(k.sig)
        if pred is None:
            raise HarnessError(f"known finding {k.slug}: unknown signature {k.sig}")
        try:
            if pred(case, f):
                return k.slug
        except HarnessError:
            raise
        except Exception:  # noqa: BLE001
            pass
    return None


def zlib_crc(s: str) -> int:
    import zlib

    return zlib.crc32(s.encode())


# --------------------------------------------------------------------------------------------
# Generic JSON shrinker (time-bounded greedy delta debugging; bypasses Hypothesis' 5-minute cap)


def _paths(obj: Any, prefix: tuple = ()) -> list[tuple]:
    out = [prefix]
    if isinstance(obj, dict):
        for k in obj:
            out += _paths(obj[k], prefix + (k,))
    elif isinstance(obj, list):
        for i in range(len(obj)):
            out += _paths(obj[i], prefix + (i,))
    return out


def _get(obj: Any, path: tuple) -> Any:
    for p in path:
        obj = obj[p]
    return obj


def _set(obj: Any, path: tuple, val: Any) -> Any:
    if not path:
        return val
    obj = json.loads(json.dumps(obj))
    cur = obj
    for p in path[:-1]:
        cur = cur[p]
    cur[path[-1]] = val
    return obj


def _candidates(val: Any) -> list[Any]:
    """Smaller variants of a JSON value, most aggressive first."""
    out: list[Any] = []
    if isinstance(val, str):
        if "\n" in val:
            lines = val.split("\n")
            n = len(lines)
            chunk = n // 2
            while chunk >= 1:
                for i in range(0, n, chunk):
                    out.append("\n".join(lines[:i] + lines[i + chunk :]))
                chunk //= 2
        words = val.split(" ")
        if 1 < len(words) <= 400:
            n = len(words)
            chunk = n // 2
            while chunk >= 1:
                for i in range(0, n, chunk):
                    out.append(" ".join(words[:i] + words[i + chunk :]))
                chunk //= 2
        if 0 < len(val) <= 120:
            for i in range(len(val)):
                out.append(val[:i] + val[i + 1 :])
    elif isinstance(val, list):
        n = len(val)
        chunk = max(1, n // 2)
        while chunk >= 1 and n > 0:
            for i in range(0, n, chunk):
                out.append(val[:i] + val[i + chunk :])
            if chunk == 1:
                break
            chunk //= 2
    elif isinstance(val, bool):
        if val:
            out.append(False)
    elif isinstance(val, int):
        for c in (0, 1, val // 2, val - 1):
            if 0 <= c < val or (val < 0 and c > val and c <= 0):
                out.append(c)
    return out


def shrink_case(case: Any, still_fails: Callable[[Any], bool], budget_s: float = 30.0, frozen: tuple[str, ...] = ()) -> Any:
    """Greedy structural minimisation of a JSON case. `frozen` = top-level keys never touched."""
    t0 = time.monotonic()
    best = case
    improved = True
    seen: set[int] = set()
    while improved and time.monotonic() - t0 < budget_s:
        improved = False
        for path in _paths(best):
            if path and path[0] in frozen:
                continue
            if time.monotonic() - t0 >= budget_s:
                break
            try:
                val = _get(best, path)
            except (KeyError, IndexError, TypeError):
                continue
            for cand in _candidates(val):
                if time.monotonic() - t0 >= budget_s:
                    break
                new = _set(best, path, cand)
                h = case_hash(new)
                if h in seen:
                    continue
                seen.add(h)
                ok = False
                try:
                    ok = still_fails(new)
                except Exception:  # noqa: BLE001
                    ok = False
                if ok:
                    best = new
                    improved = True
                    break
            if improved:
                break
    return best
