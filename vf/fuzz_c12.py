"""Coverage-guided fuzzing of reformat_text for C12 (atheris / libFuzzer), thorough tier only.

Run as a script:  python -m vf.fuzz_c12 <corpus_dir> [libFuzzer options]
The oracle (no exception, CPU budget, well-formedness) is inside the target; a violation is raised as an exception so
that libFuzzer saves the input as crash-<sha>. campaign(ctx) drives one fuzzing process per shard and feeds every saved
artifact through the ordinary check_case (so known findings and replay files work the same way).
"""
from __future__ import annotations

import os
import subprocess
import sys
import tempfile
from pathlib import Path

ROOT = Path(__file__).resolve().parent.parent


def decode(data: bytes) -> dict:
    """bytes -> (options, text): the first 3 bytes choose the options, the rest is the text (UTF-8, errors replaced)."""
    from vf.props import c12

    head = data[:3] + b"\0\0\0"
    flags = head[0]
    widths = [88, 0, 1, 7, 20, 40, -3, 10**6]
    o = {
        "width": widths[head[1] % len(widths)],
        "plaintext": bool(flags & 1), "semantic": bool(flags & 2), "cleanups": bool(flags & 4), "smartquotes": bool(flags & 8),
        "ellipses": bool(flags & 16), "list_spacing": ["preserve", "loose", "tight"][head[2] % 3],
    }
    text = c12._bound_depth(data[3:].decode("utf-8", errors="replace")[:2048])
    return {"kind": "soup", "text": text, "opts": o}


class Violation(Exception):
    pass


def main() -> None:
    sys.path.insert(0, str(ROOT / ".deps"))
    import atheris

    with atheris.instrument_imports(include=["flowmark", "marko"]):
        import flowmark  # noqa: F401
        from vf.props import c12
    from vf.core import Note

    def one(data: bytes) -> None:
        case = decode(data)
        f = c12.check_case(case, Note())
        if f is not None:
            raise Violation(f.bucket)

    atheris.Setup(sys.argv, one)
    atheris.Fuzz()


def campaign(ctx) -> None:
    """One libFuzzer process for this shard; artifacts are re-checked through ctx.check."""
    deps = ROOT / ".deps"
    if not (deps / "atheris").exists():
        ctx.res.counters["atheris_not_installed"] += 1
        return
    secs = int(min(600, max(30, ctx.time_left() - 120)))
    with tempfile.TemporaryDirectory(prefix="vf_c12fz_") as d:
        corpus = Path(d) / "corpus"
        crashes = Path(d) / "crashes"
        corpus.mkdir()
        crashes.mkdir()
        # half of the shards start from an empty corpus, the others from slices of the repository's reference documents
        if ctx.shard % 2 == 1:
            src = Path(os.environ.get("VERIF_REPO", "/repo")) / "tests" / "testdocs" / "testdoc.orig.md"
            if src.exists():
                text = src.read_text(encoding="utf-8")
                for i in range(0, min(len(text), 40000), 1500):
                    (corpus / f"seed{i}").write_bytes(bytes([i % 32, i % 8, i % 3]) + text[i:i + 1500].encode())
        env = dict(os.environ, PYTHONPATH=f"{os.environ.get('VERIF_REPO', '/repo')}/src:{ROOT}:{deps}")
        cmd = [sys.executable, "-X", "utf8", "-m", "vf.fuzz_c12", str(corpus), f"-max_total_time={secs}", f"-seed={ctx.seed * 100 + ctx.shard + 1}",
               f"-artifact_prefix={crashes}/", "-max_len=2100", "-timeout=30", "-rss_limit_mb=4096", "-print_final_stats=1"]
        found = 0
        # libFuzzer stops at the first crash: restart until the time is used up, so the search continues behind a finding
        import time

        t_end = time.monotonic() + secs
        execs = 0
        while time.monotonic() < t_end and found < 20:
            left = int(t_end - time.monotonic())
            if left < 5:
                break
            cmd[4] = f"-max_total_time={left}"
            p = subprocess.run(cmd, env=env, cwd=str(ROOT), capture_output=True, text=True)
            for line in p.stderr.splitlines():
                if line.startswith("stat::number_of_executed_units:"):
                    execs += int(line.split(":")[-1])
            arts = sorted(crashes.iterdir())
            if not arts:
                break
            for a in arts:
                case = decode(a.read_bytes())
                ctx.check(case, "atheris_artifact")
                found += 1
                a.unlink()
        ctx.res.counters["atheris_executions"] += execs
        ctx.res.counters["atheris_seconds"] += secs
        ctx.res.counters["atheris_corpus_" + ("seeded" if ctx.shard % 2 else "empty")] += 1


if __name__ == "__main__":
    main()
