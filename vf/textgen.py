"""Exploratory structured Markdown generator (hypothesis). Feature-flagged."""
from hypothesis import strategies as st

from vf.layout import GAP, realize

PLAIN = ["'single'", "\"double\"", "\"open", "close\"", "it's", "Jones'", "wait...", "...and", "a...b", "alpha", "beta", "Gamma", "delta", "it", "a", "I", "word", "longerword", "x", "Supercalifragilistic",
         "cat", "dog", "The", "of", "to", "42", "3.14", "v1.0.0", "e.g.", "U.S.", "Mr.", "naïve", "über", "αβγ", "Привет", "don't", "co-op", "a/b", "x=y", "(paren)", "semi;", "colon:", "comma,"]
SENT_END = ["end.", "done!", "really?", "stop.)", "said.\"", "finished.", "ok.", "Yes.", "no."]
HAZ = {
    "bullet": ["-", "+", "*"],
    "ordered": ["1.", "2)", "10.", "007."],
    "atx": ["#", "##", "######"],
    "quote": [">"],
    "rule": ["---", "***", "___", "- - -"],
    "setext": ["===", "=", "--"],
    "fence": ["```", "~~~", "````"],
    "pipe": ["|x|", "|", "|---|", "-|", "|-", ":-:", "|-|-|", "x|", ":-|", "-:"],
    "misc": ["+1", "-x", "#hash", "1.x", "[", "]", "[x]", "[ ]", "<", "&", "&amp;", "_", "__", "~", "`", "!", "*x", "x*", "_y", "y_", "|", "a|b", ":", "[^a]:", "[a]:"],
    "gtx": [">x", ">>", ">quote"],
    "backslash": ["\\"],
}
CJK = ["中文", "日本語abc", "abc漢字", "漢"]
QUOTES = ['"quoted', 'phrase"', "'single", "q'", '"word"', "'w'", "it's", "Jones'", 'x="foo"', "x='y'", '\\"esc\\"', "\\'e\\'", '—"dash"', '"a', 'b",',
          '("paren")', '"end."', "'tis", "rock'n'roll", '""', "''", '"', "'", 'say:"x"', '"q"?', "’already’", "“curly”", "don't", "dogs'", "'90s", '"Hello,"',
          "'end.'", "'stop!'", "said.'", "word.'", '"done."', "'really?'", "disaster.'",
          '"`code`"', "'*em*'", '"[l](u)"', '**"bold"**', '"{{ v }}"', "{% t a='b' %}'s",
          '"she answered "never" and left"', "'a 'b' c'", '"He said \'hi\' to me"', '"outer “curly” inside"', "'it's 'x' y'"]
NESTED_QUOTES = ['"she answered "never" and left"', "'a 'b' c'", '"He said \'hi\' to me"', '"outer “curly” inside"', "'it's 'x' y'", '"a "b" c" d "e"']
DOTS = ['"wait"...', "'x'...", '"a"...and', "(\"q\")...", "...", "wait...", "...and", "a...b", "....", "..", "x....y", "end...", '"...', '..."', "...,", "(...)", "...)", "1...", "…", "word…", "... ...", "......",
        "`...`", "[...](u)", "*...*", "-...", "...!", "...?"]

def words(feat):
    pools = [st.sampled_from(PLAIN), st.sampled_from(PLAIN), st.sampled_from(SENT_END)]
    for k, v in HAZ.items():
        if "haz_" + k in feat:
            # "[^a]:" at a line start opens a footnote definition: only with the footnote feature
            # a pair of lone "`" words makes a code span around generated gaps, whose width the layouts then vary: not for C03
            pools.append(st.sampled_from([w for w in v if (w != "[^a]:" or "footnote" in feat) and (w != "`" or "no_lone_tick" not in feat)]))
    if "cjk" in feat: pools.append(st.sampled_from(CJK))
    if "quotes" in feat: pools += [st.sampled_from(QUOTES)] * 3 + [st.sampled_from(NESTED_QUOTES)]
    if "dots" in feat: pools += [st.sampled_from(DOTS)] * 3
    return st.one_of(pools)

import re as _re

_SENT_END_WORD = _re.compile(r"[^\W\d_]{2,}[.?!]['\"’”)]?$|[^\W\d_]{2,}['\"’”)][.?!]$")
PLAIN_NO_END = [w for w in PLAIN if not (_SENT_END_WORD.search(w) and w[-2:-1].islower() or w == "Mr.")]


def phrase(feat, lo=1, hi=4):
    """Words inside an inline atom. Unless `sent_end_in_atom` is on, none of them looks like a sentence end
    (semantic mode splits sentences inside atomic constructs: recorded known finding)."""
    pool = PLAIN if "sent_end_in_atom" in feat else PLAIN_NO_END
    return st.lists(st.sampled_from(pool), min_size=lo, max_size=hi).map(" ".join)

def atoms(feat):
    """inline atoms (strings that should be single inline constructs)."""
    a = []
    ph = phrase(feat)
    if "emph" in feat:
        a += [ph.map(lambda s: f"*{s}*"), ph.map(lambda s: f"**{s}**"), ph.map(lambda s: f"_{s}_"), ph.map(lambda s: f"***{s}***")]
    if "strike" in feat: a += [ph.map(lambda s: f"~~{s}~~")]
    if "code" in feat:
        a += [ph.map(lambda s: f"`{s}`"), st.sampled_from(["`a  b`", "`` `x` ``",] + (["``a`b``", "`` ` ``"] if "code_inner_tick" in feat else []) + [ "`*not em*`", "`<b>`", "`{% t %}`", "`|`", "`it's \"q\"...`", "`-`", "`1.`"])]
    if "link" in feat:
        url = st.sampled_from(["http://example.com/a_b*c", "https://x.y/z?q=1&r=2", "/rel/path", "#frag", "url"] + (["/two", "http://ref.one/x", "http://three.x"] if "refdef" in feat else []) + (["<http://a b.c>", "a(b", "<a)b>", "<a)b(c>", "a\\)b\\(c", "<>", "a(b)c", "<a(b>"] if "link_angle" in feat else []))
        title = st.sampled_from(["", "", ' "Ref One"', ' "Title here"', " 'single q'", ' (paren t)', ' "it\'s"', ' "a \\"q\\" b"'])
        a += [st.tuples(ph, url, title).map(lambda t: f"[{t[0]}]({t[1]}{t[2]})"),
              st.tuples(ph, url, title).map(lambda t: f"![{t[0]}]({t[1]}{t[2]})"),
              st.tuples(ph, url).map(lambda t: f"[*{t[0]}* `c d`]({t[1]})")]
    if "reflink" in feat:
        a += [ph.map(lambda s: f"[{s}][ref1]"), st.just("[ref2]"), st.just("[ref1][]"), st.just("[undefined ref]"), st.just("[text][nodef]")]
    if "autolink" in feat:
        a += [st.sampled_from(["<http://auto.link/x>", "<mailto:a@b.c>", "<a@b.co>", "http://bare.example.com/p", "www.example.com", "https://e.x/a(b)c", "user@example.com",
                              "http://example.com/wiki/Murphy's_law", "www.example.com/it's", "https://e.x/q?a=\"b\"", "http://e.x/wait...more"])]
    if "html" in feat:
        a += [st.sampled_from(["<b>", "</b>", "<br/>", '<span class="a b">', "</span>", '<a href="x y" title=\'t u\'>', "<!-- a comment here -->", "<!--c-->", "<x-y z>"])]
    if "tags" in feat:
        a += [st.sampled_from(["{% tag %}", "{% /tag %}", '{% field kind="string" id="a b" %}', "{% field %}{% /field %}", "{{ var }}", "{{ a | f('x y') }}", "{# a comment #}", "{%- trim -%}", "{% a %}{% b %}", "<!-- f:x --><!-- /f -->",
                              '{% note "hello there" %}', "{# it's a \"comment\" here #}", "<!-- don't \"touch\" this... -->", '{{ "x" }}', "{{ 'y' }}", "{% if a == 'b c' %}",
                              "{% t ... %}", "<!-- wait... -->",
                              '{% if n % 2 == "odd" %}', "{{ t(\"it's\", {}) }}", "{# it's #1 here #}"])]
    if "escape" in feat:
        a += [st.sampled_from(["\\*", "\\_", "1\\.", "\\#", "\\-", "\\>", "\\[x\\]", "a\\*b", "\\|", "\\<b\\>", "\\&amp;"] + (["\\`", "\\\\"] if "escape_tick" in feat else []))]
    if "fnref" in feat: a += [st.just("[^fn1]"), st.just("[^nofn]")]
    if "entity" in feat: a += [st.sampled_from(["&amp;", "&lt;", "&#35;", "&copy;", "&nbsp;"])]
    return a

def inline_tokens(feat):
    a = atoms(feat)
    w = words(feat)
    if not a: return w
    return st.one_of(w, w, w, st.one_of(a))

_TAG_EDGE = _re.compile(r"^(\{%|\{\{|\{#|<!--)|(%\}|\}\}|#\}|-->)$")


def _separate_tags(toks, feat):
    """Known findings of C06 (an authored space between two tags is removed; adjacent unpaired tags are split): unless the
    feature is on, two tag-like tokens never follow each other directly, and the unpaired adjacent pair is not used."""
    out = []
    for t in toks:
        if t == "{% a %}{% b %}" and "tags_adjacent" not in feat:
            t = "{% a %}"
        if out and "tag_spacing" not in feat and _TAG_EDGE.search(t) and _TAG_EDGE.search(out[-1]):
            out.append("and")
        out.append(t)
    return out


_HAZ_WORDS = frozenset(w for v in HAZ.values() for w in v)
_TAG_DELIM = _re.compile(r"\{%|%\}|\{\{|\}\}|\{#|#\}|<!--|-->")


def _no_hazards_next_to_tags(toks, feat):
    """Known finding (tag heuristics depend on the line structure, C02 tag-block-heuristics-second-run / C01
    escaped-numeral-in-tag-paragraph): unless the feature is on, a paragraph that holds a tag or comment holds no
    block-marker look-alikes and no escaped numerals."""
    if "tags_with_hazards" in feat or not any(_TAG_DELIM.search(t) and not t.startswith("`") for t in toks):
        return toks
    return [("word" if (t in _HAZ_WORDS or _re.fullmatch(r"\d+\\[.)]", t)) else t) for t in toks]


def para_tokens(feat, lo=1, hi=30):
    return st.lists(inline_tokens(feat), min_size=lo, max_size=hi).map(lambda toks: _no_hazards_next_to_tags(_separate_tags(toks, feat), feat))

@st.composite
def para_lines(draw, feat, lo=1, hi=30):
    """Source lines of a paragraph (no indent). Words are joined with layout.GAP: the concrete layout (spaces, soft
    line breaks) is chosen later by layout.realize(). Hard breaks end a line."""
    toks = draw(para_tokens(feat, lo, hi))
    segs = [[]]
    for i, t in enumerate(toks):
        segs[-1].append(t)
        if i + 1 < len(toks) and "hardbreak" in feat and draw(st.integers(0, 11)) == 0:
            segs[-1].append(draw(st.sampled_from(["\\", "  "])))
            segs.append([])
    out = []
    for n, sg in enumerate(segs):
        if not sg:
            continue
        if sg[-1] in ("\\", "  ") and len(sg) > 1 and n + 1 < len(segs):
            out.append(GAP.join(sg[:-1]) + sg[-1])
        else:
            out.append(GAP.join(x for x in sg if x not in ("\\", "  ")) or "x")
    out[-1] = out[-1].rstrip("\\ ") or "x"
    return out

def indent(lines, first, rest):
    res = []
    for i, l in enumerate(lines):
        p = first if i == 0 else rest
        res.append((p + l) if l else p.rstrip())
    return res

@st.composite
def code_block(draw, feat):
    fence = draw(st.sampled_from(["```", "~~~", "````", "~~~~~"]))
    info = draw(st.sampled_from(["", "python", "py extra words", "c++", "{.r}", "js title=\"a b\""]))
    if fence[0] == "`": info = info.replace("`", "")
    pool = ["x = 1", "  indented", "", "", "\tTab", "- not list", "# not heading", "> nq", "| a |", "it's \"q\" ...", "trailing  ", "*", "1. x", "    deep", "\\", "***"]
    if "code_taglike" in feat: pool += ["<!-- c -->", "{% t %}", "{% /t %}"]
    if "code_fences_inside" in feat: pool += ["```", "~~~", "```py", "  ```", "````", "~~~~"]
    content = draw(st.lists(st.sampled_from(pool), min_size=0, max_size=6))
    # make sure content cannot close the fence
    content = [c for c in content if not (c.strip().startswith(fence[0] * len(fence)) and set(c.strip()) == {fence[0]})]
    return [fence + info] + content + [fence]

@st.composite
def indented_code(draw, feat):
    content = draw(st.lists(st.sampled_from(["x = 1", "  more", "- a", "# h", "```", "*em*", "tail  "]), min_size=1, max_size=4))
    return ["    " + c for c in content]

@st.composite
def table(draw, feat):
    n = draw(st.integers(1, 4))
    cell = st.one_of(st.sampled_from(["a", "b c", "x \\| y", "**b**", "", "1.", "-", "[l](u)", "it's", "\"q\"", "...", "`code`"] + (["{% t %}", "<b>"] if "tags" in feat else []) + (["`c|d`"] if "table_pipe_in_code" in feat else [])), phrase(feat, 1, 3))
    def row(cells): return "| " + " | ".join(cells) + " |"
    head = draw(st.lists(cell.filter(lambda c: c != ""), min_size=n, max_size=n))
    delim = draw(st.lists(st.sampled_from(["---", ":--", "--:", ":-:", "-", ":---------:"]), min_size=n, max_size=n))
    rows = draw(st.lists(st.lists(cell, min_size=n, max_size=n), min_size=0, max_size=3))
    style = draw(st.integers(0, 2))
    lines = [row(head), row(delim)] + [row(r) for r in rows]
    from vf.layout import _BLOCK_START
    starts_block = any(_BLOCK_START.match((r[0].split() or [""])[0]) for r in [head] + rows if r and r[0])
    if style == 1 and n > 1 and not starts_block: lines = [l[2:-2] for l in lines]
    return lines

def restrict(feat, ctx):
    f = set(feat)
    if ctx:
        if "table_nested" not in f: f.discard("table")
        if "refdef_nested" not in f: f.discard("refdef")
        if "tagline_nested" not in f: f.discard("tagline")
        if "footnote_nested" not in f: f.discard("footnote")
    if "quote" in ctx:
        if "heading_in_quote" not in f: f.discard("atx"); f.discard("setext")
    return frozenset(f)

def leaf_block(feat):
    opts = [para_lines(feat), para_lines(feat), para_lines(feat, 1, 60)]
    if "escape" in feat:
        # paragraphs that begin with an escaped block marker (the escape is what keeps them paragraphs)
        opts.append(st.sampled_from([["1\\." + GAP + "not" + GAP + "a" + GAP + "list"], ["2025\\." + GAP + "That" + GAP + "was" + GAP + "it."], ["\\-" + GAP + "dash"], ["\\#" + GAP + "hash"], ["\\>" + GAP + "gt"]]))
    if "atx" in feat:
        opts.append(st.tuples(st.integers(1, 6), para_tokens(feat - {"hardbreak"}, 1, 8), st.sampled_from(["", " #", " ###"])).map(lambda t: ["#" * t[0] + " " + " ".join(t[1]) + t[2]]))
    if "setext" in feat:
        opts.append(st.tuples(para_lines(feat - {"hardbreak"}, 1, 10), st.sampled_from(["===", "---", "=", "-------"])).map(lambda t: t[0] + [t[1]]))
    if "fenced" in feat: opts.append(code_block(feat))
    if "indcode" in feat: opts.append(indented_code(feat))
    if "table" in feat: opts.append(table(feat))
    if "hr" in feat: opts.append(st.sampled_from([["---"], ["***"], ["___"], ["* * *"], ["- - - -"]]))
    if "refdef" in feat: opts.append(st.sampled_from([['[ref1]: http://ref.one/x "Ref One"'], ["[ref2]: /two"], ["[ref1]: <http://a b> 'sq'"], ["[Ref Three]: http://three.x (par)"]]))
    if "tagline" in feat: opts.append(st.sampled_from([["{% field %}"], ["{% /field %}"], ["<!-- f:a -->"], ["<!-- /f:a -->"], ["{# note #}"]]))
    return st.one_of(opts)

@st.composite
def blocks(draw, feat, depth, lo=1, hi=4, ctx=()):
    feat = restrict(feat, ctx)
    n = draw(st.integers(lo, hi))
    out = []
    for i in range(n):
        b = draw(block_(feat, depth, ctx))
        if out:
            tight_join = "tightjoin" in feat and draw(st.integers(0, 5)) == 0
            if (len(b) == 1 and b[0].lstrip().startswith(("{%", "{#", "<!--"))) or (out and out[-1].lstrip().startswith(("{%", "{#", "<!--"))):
                tight_join = False  # tag lines stand between blank lines (the documented way to use them)
            if b and "|" in b[0] and not b[0].lstrip().startswith(("`", "~")):
                tight_join = False  # a table directly under paragraph text is not a table in GFM
            if "refdef_tightjoin" not in feat and out and _re.match(r"^\s*\[[^\]]+\]:", out[-1]):
                tight_join = False  # text directly after a link definition: recorded known finding (title capture)
            if not tight_join: out.append("")
            if "blanklines" in feat and draw(st.integers(0, 6)) == 0: out.append("")
            if "footnote" not in feat and b and b[0].startswith("    ") and any(l.startswith("[^fn1]:") for l in out):
                # an indented code block after a footnote would be a continuation of the footnote (blocks nested in
                # footnotes are the separate feature "footnote"): separate it with a paragraph
                if not any(l and not l.startswith((" ", "[^fn1]:")) for l in out[max(i for i, l in enumerate(out) if l.startswith("[^fn1]:")):]):
                    out += ["sep.", ""]
        out += b
    return out

@st.composite
def list_block(draw, feat, depth, ctx=()):
    ordered = draw(st.booleans()) if "olist" in feat else False
    n = draw(st.integers(1, 4))
    loose = draw(st.booleans())
    if ordered:
        start = draw(st.sampled_from([1, 1, 1, 0, 2, 7, 10, 99, 123456789]))
        delim = draw(st.sampled_from([".", ")"])) if "olist_paren" in feat else "."
    else:
        bullet = draw(st.sampled_from(["-", "*", "+"]))
    task = "task" in feat and not ordered and draw(st.integers(0, 3)) == 0
    out = []
    for i in range(n):
        marker = f"{start + i}{delim}" if ordered else bullet
        pad = draw(st.sampled_from([1, 1, 1, 2, 3])) if "listpad" in feat else 1
        first = marker + " " * pad
        rest = " " * len(first)
        is_para = True
        if depth > 0 and draw(st.integers(0, 2)) == 0:
            body = draw(blocks(feat, depth - 1, 1, 3, ctx + ('list',)))
            is_para = False
            if body and body[0].lstrip().startswith("|"):
                # a table that starts on the list marker line is not read as a table by Marko (recorded with the known
                # finding table-first-block-of-list-item): the item starts with a paragraph instead
                body = ["item", ""] + body
        else:
            body = draw(para_lines(feat, 1, 20))
        if task and body and body[0][:1] not in "`~#>|-*+=_[ \t" and not body[0][:1].isdigit():
            body[0] = draw(st.sampled_from(["[ ] ", "[x] ", "[X] "])) + body[0]
        if "lazy" in feat and is_para and draw(st.integers(0, 4)) == 0: rest_i = ""
        else: rest_i = rest
        item = indent(body, first, rest)
        if rest_i == "":  # lazy continuation only for paragraph continuation lines of a single paragraph body
            if all(l != "" for l in body) and not any(l.startswith(("#", "`", "~", "|", ">", "-", "*", "+", "    ")) or l[:1].isdigit() for l in body[1:]):
                item = indent(body, first, "")
        if out and loose: out.append("")
        out += item
    return out

@st.composite
def quote_block(draw, feat, depth, ctx=()):
    body = draw(blocks(feat, depth - 1, 1, 3, ctx + ('quote',))) if depth > 0 else draw(para_lines(feat, 1, 20))
    alert = "alert" in feat and draw(st.integers(0, 3)) == 0
    res = indent(body, "> ", "> ")
    res = [l if l.strip() != ">" else ">" for l in res]
    if alert: res = ["> [!" + draw(st.sampled_from(["NOTE", "TIP", "warning", "CAUTION", "Important"])) + "]"] + res
    return res

@st.composite
def footnote_block(draw, feat, depth, ctx=()):
    # the first paragraph has no block-marker look-alikes (as its first word one would make the first block a list/quote/...:
    # that form is the separate feature fn_nonpara_first)
    body = draw(para_lines(feat if "fn_nonpara_first" in feat else frozenset(f for f in feat if not f.startswith("haz_")), 1, 15))
    if "footnote" not in feat:
        return indent(body, "[^fn1]: ", "    ")  # footnote_simple: one paragraph
    if depth > 0 and draw(st.booleans()):
        if "fn_nonpara_first" in feat and draw(st.booleans()):
            body = draw(blocks(feat, depth - 1, 1, 2, ctx + ('fn',)))
        else:
            body = body + [""] + draw(blocks(feat, depth - 1, 1, 2, ctx + ('fn',)))
    return indent(body, "[^fn1]: ", "    ")

def block_(feat, depth, ctx=()):
    opts = [leaf_block(feat), leaf_block(feat)]
    if "list" in feat: opts.append(list_block(feat, depth, ctx))
    if "quote" in feat: opts.append(quote_block(feat, depth, ctx))
    if "footnote" in feat and depth >= 1: opts.append(footnote_block(feat, depth, ctx))
    elif "footnote_simple" in feat and not ctx: opts.append(footnote_block(feat, depth, ctx))
    return st.one_of(opts)

def doc_raw(feat, depth=2, hi=5):
    """Unrealized document text (paragraph words joined by layout.GAP)."""
    feat = frozenset(feat)
    return blocks(feat, depth, 1, hi).map(lambda ls: "\n".join(ls) + "\n")


def doc(feat, depth=2, hi=5):
    """Document text with a random source layout."""
    return st.tuples(doc_raw(feat, depth, hi), st.integers(0, 2**20)).map(lambda t: realize(t[0], t[1]))


ALL = frozenset(["haz_" + k for k in HAZ] + ["cjk", "emph", "strike", "code", "link", "reflink", "autolink", "html", "tags", "escape", "fnref", "entity",
                 "hardbreak", "spaces", "footnote_simple", "code_fences_inside", "atx", "setext", "fenced", "indcode", "table", "hr", "refdef", "tagline", "tightjoin", "blanklines",
                 "list", "olist", "olist_paren", "escape_tick", "sent_end_in_atom", "code_taglike", "fn_nonpara_first", "table_pipe_in_code", "refdef_tightjoin", "task", "listpad", "lazy", "quote", "alert", "footnote"])
BASIC = frozenset(["emph", "code", "link", "atx", "fenced", "list", "olist", "quote", "hr", "table"])
