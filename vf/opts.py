"""Option sets shared by the document-level properties."""
from __future__ import annotations

from hypothesis import strategies as st

WIDTHS_SMALL = list(range(1, 13))
WIDTHS_MED = [13, 15, 17, 20, 24, 25, 30, 33, 40, 50, 60]
WIDTHS_STD = [72, 80, 88, 100]
WIDTHS_OFF = [0, -3, 10**6]


def width_strategy():
    return st.one_of(
        st.sampled_from(WIDTHS_SMALL),
        st.sampled_from(WIDTHS_SMALL),
        st.sampled_from(WIDTHS_MED),
        st.sampled_from(WIDTHS_MED),
        st.integers(13, 60),
        st.sampled_from(WIDTHS_STD),
        st.sampled_from(WIDTHS_OFF),
    )


def md_options(typography: bool = True, cleanups: bool = True, spacing: bool = True):
    """Keyword arguments for reformat_text in Markdown mode."""
    return st.fixed_dictionaries(
        {
            "width": width_strategy(),
            "semantic": st.booleans(),
            "cleanups": st.booleans() if cleanups else st.just(False),
            "smartquotes": st.booleans() if typography else st.just(False),
            "ellipses": st.booleans() if typography else st.just(False),
            "list_spacing": st.sampled_from(["preserve", "loose", "tight"]) if spacing else st.just("preserve"),
        }
    )


def fmt(text: str, o: dict) -> str:
    from flowmark import reformat_text
    from flowmark.formats.flowmark_markdown import ListSpacing

    kw = dict(o)
    if "list_spacing" in kw:
        kw["list_spacing"] = ListSpacing(kw["list_spacing"])
    return reformat_text(text, **kw)
