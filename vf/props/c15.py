"""C15 — all entry points agree: CLI, file API and text API give the same bytes."""

from __future__ import annotations

import itertools
from pathlib import Path

from hypothesis import strategies as st

from vf import textgen
from vf.cliutil import Scratch, run_cli, tree_snapshot
from vf.core import Ctx, Failure, Note

ID = "C15"
LEVEL = "exploration"
TECHNIQUE = "exhaustive enumeration of the finite option product x entry-point routes on option-sensitive documents; differential against reformat_text; Hypothesis documents in the thorough tier"
RULE = (
    "the complete product width {unset,0,20,100} x plaintext x semantic x cleanups x smartquotes x ellipses x list-spacing {unset,preserve,"
    "loose,tight} (512 points) x 13 routes (CLI file->stdout, file->'-o -', --inplace, --inplace --nobackup, stdin->stdout, stdin->-o file, "
    "reformat_file file->file / file->stdout / in place, reformat_files with three files, CLI three files to stdout and in place, --auto vs its "
    "expansion) on documents verified to be sensitive to every option; usage errors. Non-trivial = the option point differs from the defaults "
    "and the expected output differs from the all-defaults output; distinct by SHA-1 of (document, option point)."
)
LEVEL_TEXT = (
    "Exhaustive over the finite option product and the listed routes for each document used (bytes compared with reformat_text under the "
    "documented defaults); the documents are constructed so that every option changes the output, so a swapped or dropped argument is "
    "visible. Quick: 2 documents x 512 points; thorough: + generated documents and a real-subprocess sample."
)
LEVEL_NOTE = "The CLI is driven in-process through cli.main with stdin/stdout replaced and cwd in a temp dir without a config file; UTF-8 I/O is assumed (Python UTF-8 mode)."
ASSUMPTIONS = [
    "no flowmark config file is visible from the temp working directory (asserted)",
    "file I/O uses UTF-8 (the harness runs Python with -X utf8)",
    "CLI file -> '-o file' is not a route: the property lists -o only for stdin and the golden tests pin that it is rejected for files",
]
BUDGET = {"quick": 100, "thorough": 1500}

DOC1 = """# **Whole bold heading**

This is a "quoted" sentence that isn't short... and it goes on for quite a while so that it must wrap at narrow widths. Here is a second sentence! And a third one, with 'single quotes' and naïve café text — plus 中文 mixed.

- tight item one
- tight item two

1. loose item one

2. loose item two with a longer text that needs wrapping when the width is small enough to matter.

> A quote with "more quotes"... inside it. Another sentence here.

## Partly **bold** heading
"""
DOC2 = """***Bold italic heading***
===

Short para. Wait... what? "Yes," she said. It's a test of the emergency formatting system, which should produce different results for different options.

* a
* b

  second paragraph of b

+ x

+ y

- t1
- t2

Text with `code "span"...` and [a link](http://example.com "t") and <b>html</b>.
"""
DOCS = [DOC1, DOC2]
WIDTHS = [None, 0, 20, 100]
SPACINGS = [None, "preserve", "loose", "tight"]


def expected(text: str, pt: dict) -> str:
    from flowmark import reformat_text
    from flowmark.formats.flowmark_markdown import ListSpacing

    return reformat_text(
        text,
        width=88 if pt["width"] is None else pt["width"],
        plaintext=pt["plaintext"],
        semantic=pt["semantic"],
        cleanups=pt["cleanups"],
        smartquotes=pt["smartquotes"],
        ellipses=pt["ellipses"],
        list_spacing=ListSpacing(pt["list_spacing"] or "preserve"),
    )


def argv_of(pt: dict) -> list[str]:
    a: list[str] = []
    if pt["width"] is not None:
        a += ["-w", str(pt["width"])]
    for k, flag in (("plaintext", "--plaintext"), ("semantic", "--semantic"), ("cleanups", "--cleanups"), ("smartquotes", "--smartquotes"), ("ellipses", "--ellipses")):
        if pt[k]:
            a.append(flag)
    if pt["list_spacing"] is not None:
        a += ["--list-spacing", pt["list_spacing"]]
    return a


def api_kwargs(pt: dict) -> dict:
    from flowmark.formats.flowmark_markdown import ListSpacing

    kw = dict(plaintext=pt["plaintext"], semantic=pt["semantic"], cleanups=pt["cleanups"], smartquotes=pt["smartquotes"], ellipses=pt["ellipses"])
    if pt["width"] is not None:
        kw["width"] = pt["width"]
    if pt["list_spacing"] is not None:
        kw["list_spacing"] = ListSpacing(pt["list_spacing"])
    return kw


def _show(s: str, n: int = 300) -> str:
    r = repr(s)
    return r if len(r) <= n else r[:n] + "…"


def _api_expected(text: str, pt: dict) -> str:
    """reformat_file/reformat_files have their own documented defaults (cleanups=True)."""
    return expected(text, pt)


def check_case(case: dict, note: Note) -> Failure | None:
    import contextlib
    import io
    import sys

    from flowmark.reformat_api import reformat_file, reformat_files
    from flowmark.config import find_config_file

    text, pt = case["text"], case["point"]
    kind = case.get("kind", "point")
    if kind == "usage":
        return _usage(case, note)
    exp = expected(text, pt)
    default_pt = dict(width=None, plaintext=False, semantic=False, cleanups=False, smartquotes=False, ellipses=False, list_spacing=None)
    note.nontrivial = pt != default_pt and exp != expected(text, default_pt)
    others = [text + "\nSecond file paragraph...\n", "# Third\n\n- x\n- y\n"]
    av = argv_of(pt)
    fails: list[str] = []

    def cmp(route: str, got: str, want: str) -> None:
        if got != want:
            fails.append(f"route {route}: got {_show(got)} expected {_show(want)}")

    with Scratch("vf_c15_") as d:
        if find_config_file(Path.cwd()) is not None:
            from vf.core import HarnessError

            raise HarnessError(f"a flowmark config file is visible from {d}")
        f = d / "doc.md"

        def fresh() -> None:
            for p in d.iterdir():
                if p.is_file():
                    p.unlink()
            f.write_text(text, encoding="utf-8")

        # r1 file -> stdout
        fresh()
        rc, out, err = run_cli(av + [str(f)])
        cmp("cli file->stdout", out if rc == 0 else f"<exit {rc}: {err}>", exp)
        if f.read_text(encoding="utf-8") != text:
            fails.append("cli file->stdout modified the input file")
        # r2 file -> -o -
        rc, out, err = run_cli(av + ["-o", "-", str(f)])
        cmp("cli file->'-o -'", out if rc == 0 else f"<exit {rc}: {err}>", exp)
        # r3 inplace with backup
        fresh()
        rc, out, err = run_cli(av + ["--inplace", str(f)])
        cmp("cli --inplace", f.read_text(encoding="utf-8") if rc == 0 else f"<exit {rc}: {err}>", exp)
        orig = d / "doc.md.orig"
        if rc == 0 and (not orig.exists() or orig.read_text(encoding="utf-8") != text):
            fails.append("cli --inplace: doc.md.orig missing or not the old content")
        if out:
            fails.append(f"cli --inplace wrote to stdout: {_show(out)}")
        # r4 inplace nobackup
        fresh()
        rc, out, err = run_cli(av + ["--inplace", "--nobackup", str(f)])
        cmp("cli --inplace --nobackup", f.read_text(encoding="utf-8") if rc == 0 else f"<exit {rc}: {err}>", exp)
        if (d / "doc.md.orig").exists():
            fails.append("cli --inplace --nobackup left a .orig file")
        # r5 stdin -> stdout
        fresh()
        rc, out, err = run_cli(av + ["-"], stdin_text=text)
        cmp("cli stdin->stdout", out if rc == 0 else f"<exit {rc}: {err}>", exp)
        # r6 stdin -> -o file
        rc, out, err = run_cli(av + ["-o", "out.md", "-"], stdin_text=text)
        cmp("cli stdin->-o file", (d / "out.md").read_text(encoding="utf-8") if rc == 0 and (d / "out.md").exists() else f"<exit {rc}: {err}>", exp)
        # r7..r9 file API
        kw = api_kwargs(pt)
        kw_api = dict(kw)
        kw_api.setdefault("cleanups", pt["cleanups"])
        fresh()
        reformat_file(str(f), str(d / "api_out.md"), **kw_api)
        cmp("reformat_file file->file", (d / "api_out.md").read_text(encoding="utf-8"), exp)
        buf = io.StringIO()
        with contextlib.redirect_stdout(buf):
            reformat_file(str(f), "-", **kw_api)
        cmp("reformat_file file->stdout", buf.getvalue(), exp)
        reformat_file(str(f), None, inplace=True, nobackup=True, **kw_api)
        cmp("reformat_file in place", f.read_text(encoding="utf-8"), exp)
        # r10 reformat_files API, three files in place
        fresh()
        names = [str(f)]
        for i, t in enumerate(others):
            p = d / f"other{i}.md"
            p.write_text(t, encoding="utf-8")
            names.append(str(p))
        reformat_files(names, inplace=True, nobackup=True, **kw_api)
        for nme, t in zip(names, [text] + others):
            cmp(f"reformat_files in place {Path(nme).name}", Path(nme).read_text(encoding="utf-8"), expected(t, pt))
        # r11 CLI three files to stdout
        fresh()
        for i, t in enumerate(others):
            (d / f"other{i}.md").write_text(t, encoding="utf-8")
        rc, out, err = run_cli(av + names)
        cmp("cli three files->stdout", out if rc == 0 else f"<exit {rc}: {err}>", "".join(expected(t, pt) for t in [text] + others))
        # r12 CLI three files in place
        rc, out, err = run_cli(av + ["--inplace", "--nobackup"] + names)
        for nme, t in zip(names, [text] + others):
            cmp(f"cli three files in place {Path(nme).name}", Path(nme).read_text(encoding="utf-8") if rc == 0 else f"<exit {rc}: {err}>", expected(t, pt))
        # r13 --auto == its documented expansion (width / list spacing / plaintext pass through)
        fresh()
        g = d / "auto.md"
        g.write_text(text, encoding="utf-8")
        extra = []
        if pt["width"] is not None:
            extra += ["-w", str(pt["width"])]
        if pt["list_spacing"] is not None:
            extra += ["--list-spacing", pt["list_spacing"]]
        if pt["plaintext"]:
            extra += ["--plaintext"]
        rc1, _, err1 = run_cli(["--auto"] + extra + [str(g)])
        rc2, _, err2 = run_cli(["--inplace", "--nobackup", "--semantic", "--cleanups", "--smartquotes", "--ellipses"] + extra + [str(f)])
        auto_pt = dict(pt, semantic=True, cleanups=True, smartquotes=True, ellipses=True)
        cmp("cli --auto", g.read_text(encoding="utf-8") if rc1 == 0 else f"<exit {rc1}: {err1}>", expected(text, auto_pt))
        cmp("cli expansion of --auto", f.read_text(encoding="utf-8") if rc2 == 0 else f"<exit {rc2}: {err2}>", expected(text, auto_pt))
        if list(d.glob("*.orig")):
            fails.append("--auto left a .orig backup")
    if fails:
        return Failure("entry-points-disagree", f"option point {pt}\nargv {av}\n" + "\n".join(fails[:6]))
    return None


def _usage(case: dict, note: Note) -> Failure | None:
    note.nontrivial = True
    note.label("usage_error")
    text = case["text"]
    fails = []
    with Scratch("vf_c15u_") as d:
        for n in ("a.md", "b.md"):
            (d / n).write_text(text, encoding="utf-8")
        (d / "docs").mkdir()
        for n in ("c.md", "e.md"):
            (d / "docs" / n).write_text(text, encoding="utf-8")
        before = tree_snapshot(d)
        for argv, stdin in (
            ([], None),
            (["-o", "x.md", "a.md", "b.md"], None),
            (["-o", "x.md", "docs"], None),  # one argument that expands to several files
            (["-o", "x.md", "docs/*.md"], None),
            (["-o", "x.md", "."], None),
            (["--inplace", "-"], text),
            (["--auto"], None),
            (["--list-files"], None),
            (["-o", "x.md", "a.md"], None) if case.get("strict") else ([], None),
        ):
            rc, out, err = run_cli(case["flags"] + argv, stdin)
            if rc == 0:
                fails.append(f"argv {case['flags'] + argv} exited 0")
            after = tree_snapshot(d)
            if after != before:
                fails.append(f"argv {case['flags'] + argv} changed the directory: {sorted(set(after) ^ set(before)) or 'file contents'}")
                before = after
    if fails:
        return Failure("usage-error-handling", "\n".join(fails))
    return None


def _points():
    for w, pl, se, cl, sq, el, ls in itertools.product(WIDTHS, (False, True), (False, True), (False, True), (False, True), (False, True), SPACINGS):
        yield dict(width=w, plaintext=pl, semantic=se, cleanups=cl, smartquotes=sq, ellipses=el, list_spacing=ls)


def _sensitive(text: str) -> bool:
    base = dict(width=None, plaintext=False, semantic=False, cleanups=False, smartquotes=False, ellipses=False, list_spacing=None)
    e0 = expected(text, base)
    for k, v in (("width", 20), ("plaintext", True), ("semantic", True), ("cleanups", True), ("smartquotes", True), ("ellipses", True), ("list_spacing", "loose"), ("list_spacing", "tight")):
        if expected(text, dict(base, **{k: v})) == e0:
            return False
    return True


def _sweep(ctx: Ctx, docs: list[str]):
    idx = 0
    for di, text in enumerate(docs):
        for pt in _points():
            idx += 1
            if idx % ctx.nshards != ctx.shard:
                continue
            yield {"kind": "point", "text": text, "point": pt}


@st.composite
def _gen_case(draw):
    text = draw(textgen.doc(textgen.BASIC | {"quotes", "dots", "hardbreak", "setext"}, depth=2, hi=4))
    pt = dict(
        width=draw(st.sampled_from(WIDTHS + [7, 33])),
        plaintext=draw(st.booleans()),
        semantic=draw(st.booleans()),
        cleanups=draw(st.booleans()),
        smartquotes=draw(st.booleans()),
        ellipses=draw(st.booleans()),
        list_spacing=draw(st.sampled_from(SPACINGS)),
    )
    return {"kind": "point", "text": text, "point": pt}


def shard_work(ctx: Ctx) -> None:
    from vf.core import HarnessError

    for t in DOCS:
        if not _sensitive(t):
            raise HarnessError("a C15 document is not sensitive to every option")
    ctx.run_cases("option_product", _sweep(ctx, DOCS if not ctx.quick else DOCS), exhaustive=True)
    flagsets = [[], ["--semantic"], ["-w", "40", "--cleanups"]]
    if ctx.shard < len(flagsets):
        ctx.run_cases("usage_errors", [{"kind": "usage", "text": DOC1, "point": {}, "flags": flagsets[ctx.shard]}])
    ctx.run_hypothesis("generated_documents", _gen_case(), ctx.n(600, 40000))


EXHAUSTIVE_IF = {"quick": ["option_product"], "thorough": ["option_product"]}
