"""C03 — output is a canonical form independent of the input's line layout.

(a) f(layout1(d), o) == f(layout2(d), o) for two independent source layouts of the same generated document d
    (soft line breaks moved, spaces multiplied, continuation lines re-indented; never next to a tag/comment or a hard
    break), both verified to read as the same document.
(b) f(f(x, o1), o2) == f(x, o2) for option pairs (width, mode).
"""

from __future__ import annotations

from hypothesis import strategies as st

from vf import canon, docdomain, layout, opts, textgen
from vf.core import Ctx, Failure, Note

ID = "C03"
LEVEL = "exploration"
TECHNIQUE = "Hypothesis-generated documents rendered with two independent source layouts (metamorphic relation f(relayout(x))==f(x)) and option-pair histories f(f(x,o1),o2)==f(x,o2)"
RULE = (
    "cases = (raw generated document with free word gaps, two layout seeds, options) for relation (a) and (document, (w1,mode1), (w2,mode2)) "
    "for relation (b). A case is discarded (counted as generator_mismatch) if the two layouts do not read as the same document. "
    "Non-trivial = (a) the two source texts differ in at least one paragraph line break; (b) f(x,o1) != f(x,o2); distinct by SHA-1 of the case."
)
LEVEL_TEXT = (
    "Generated-input exploration of two metamorphic relations between runs with byte-exact comparison. Relation (b) is restricted to "
    "documents without words that wrapping must escape at a line start and without template tags/comments inside paragraphs, for the two "
    "reasons recorded as known findings / stated in the property (tag-adjacent newlines are deliberately significant)."
)
LEVEL_NOTE = "Both layouts are verified with flowmark's parser to have the same canonical tree before the relation is checked."
ASSUMPTIONS = [
    "re-layouts never add or remove a newline next to a template tag, HTML comment or hard break (deliberately significant by the statement)",
    "relation (b) excludes documents whose first pass inserts escapes (sticky escapes: recorded known finding) by construction: no hazard words",
]
BUDGET = {"quick": 80, "thorough": 1500}


def _show(s: str, n: int = 700) -> str:
    r = repr(s)
    return r if len(r) <= n else r[:n] + "…"


def _o(width: int, semantic: bool, extra: dict | None = None) -> dict:
    o = {"width": width, "semantic": semantic, "cleanups": False, "smartquotes": False, "ellipses": False, "list_spacing": "preserve"}
    if extra:
        o.update(extra)
    return o


def check_case(case: dict, note: Note) -> Failure | None:
    kind = case["kind"]
    if kind == "relayout":
        raw = case["raw"]
        x1 = layout.realize(raw, case["seed1"])
        x2 = layout.realize(raw, case["seed2"])
        o = case["opts"]
        if canon.canon_in(x1) != canon.canon_in(x2):
            note.label("generator_mismatch")
            return None
        differs = x1 != x2
        note.nontrivial = differs and x1.count("\n") != x2.count("\n")
        if differs:
            note.label("layouts_differ")
        a, b = opts.fmt(x1, o), opts.fmt(x2, o)
        if a != b:
            i = next((k for k, (p, q) in enumerate(zip(a, b)) if p != q), min(len(a), len(b)))
            return Failure("layout-dependent", f"layout1={_show(x1)}\nlayout2={_show(x2)}\nopts={o}\nout1={_show(a)}\nout2={_show(b)}\nfirst difference at offset {i}: {a[max(0, i - 40):i + 40]!r} vs {b[max(0, i - 40):i + 40]!r}")
        return None
    if kind == "twopass":
        x = case["text"]
        o1, o2 = _o(*case["o1"]), _o(*case["o2"])
        direct = opts.fmt(x, o2)
        via = opts.fmt(opts.fmt(x, o1), o2)
        note.nontrivial = opts.fmt(x, o1) != direct
        if via != direct:
            i = next((k for k, (p, q) in enumerate(zip(via, direct)) if p != q), min(len(via), len(direct)))
            return Failure("history-dependent", f"input={_show(x)}\no1={o1}\no2={o2}\nf(x,o2)     ={_show(direct)}\nf(f(x,o1),o2)={_show(via)}\nfirst difference at offset {i}: {direct[max(0, i - 40):i + 40]!r} vs {via[max(0, i - 40):i + 40]!r}")
        return None
    raise AssertionError(kind)


def _sig_via_c02(name: str):
    def pred(case: dict, f: Failure) -> bool:
        from vf.props import c02

        if case["kind"] != "twopass":
            return False
        # the same root causes as in C02 show up when o1 == o2-like histories re-read flowmark's own output
        fake = {"kind": "md", "text": case["text"], "opts": _o(*case["o2"])}
        from vf.core import Failure as F

        return c02.SIGS[name](fake, F("not-idempotent", ""))

    return pred


def _sig_semantic_first(case: dict, f: Failure) -> bool:
    from vf.props import c01

    if case["kind"] == "twopass":
        outs = [opts.fmt(case["text"], _o(*case["o1"])), opts.fmt(case["text"], _o(*case["o2"]))]
        sem = case["o1"][1] or case["o2"][1]
    else:
        o = case["opts"]
        outs = [opts.fmt(layout.realize(case["raw"], case["seed1"]), o), opts.fmt(layout.realize(case["raw"], case["seed2"]), o)]
        sem = o["semantic"]
    return bool(sem) and any(c01.semantic_sentence_start_hit(t) for t in outs)


def _sig_hardbreak_setext(case: dict, f: Failure) -> bool:
    from vf.props import c01

    x = case["text"] if case["kind"] == "twopass" else layout.realize(case["raw"], case["seed1"])
    return c01._has_heading_with_br(canon.canon_in(x)[1])


def _sig_sticky_escapes(case: dict, f: Failure) -> bool:
    """Relation (b) only: the two results are identical once the backslashes that wrapping puts before line-start markers
    are removed (an escape inserted by the first pass is kept by every later pass, and changes line lengths by one)."""
    import re

    if case["kind"] != "twopass":
        return False
    o1, o2 = _o(*case["o1"]), _o(*case["o2"])
    first = opts.fmt(case["text"], o1)
    direct = opts.fmt(case["text"], o2)
    via = opts.fmt(first, o2)
    esc = re.compile(r"\\(?=[-=*_`~>#+.)\[|:\\])")
    def escape_positions(t: str) -> list[int]:
        # where the protecting backslashes stand, counted in the text without blanks, quote markers and escapes
        out, n, body = [], 0, "".join(re.sub(r"(?m)^[ \t>]+", "", t).split())
        k = 0
        while k < len(body):
            if esc.match(body, k):
                out.append(n)
                k += 1
                continue
            n += 1
            k += 1
        return out

    if escape_positions(via) == escape_positions(direct):
        return False  # the same protecting backslashes in both: the difference is not one of escapes

    def norm(t: str) -> str:
        # quote prefixes (line starts only: a '>' word at a line start is always escaped there), escapes and blanks are dropped
        return "".join(esc.sub("", re.sub(r"(?m)^[ \t>]+", "", t)).split())

    return norm(via) == norm(direct)


def _sig_quoted_word_after_definition(case: dict, f: Failure) -> bool:
    """Same root cause as C01's finding of this name: a paragraph directly under a link definition starts with a quoted word;
    a narrow pass leaves that word alone on its line, where it reads as the definition's title."""
    import re

    x = case["text"] if case["kind"] == "twopass" else layout.realize(case["raw"], case["seed1"])
    return re.search(r"^[ \t>]*\[[^\]\n]+\]:[^\n]*\n[ \t>]*[\"'(]", x, re.M) is not None


def _sig_tag_block_heuristics(case: dict, f: Failure) -> bool:
    """Same family as C02 tag-block-heuristics-second-run / C01 block-like-line-next-to-tag-line: a paragraph holds a line
    that starts or ends with a tag delimiter and a line that looks like block content (also an escaped numeral, which the
    renderer un-escapes)."""
    import re

    from vf.props import c01

    xs = [case["text"]] if case["kind"] == "twopass" else [layout.realize(case["raw"], case["seed1"]), layout.realize(case["raw"], case["seed2"])]
    return any(c01.tag_and_block_like_paragraph(re.sub(r"(\d)\\([.)])", r"\1\2", x)) for x in xs)


def _sig_escaped_backticks(case: dict, f: Failure) -> bool:
    """Same root cause as C01 escaped-backticks-hide-code-span: a first pass escapes a fence-like word at a line start, and
    Marko then no longer finds the code spans that follow it in the paragraph."""
    import re

    if case["kind"] != "twopass":
        return False
    first = opts.fmt(case["text"], _o(*case["o1"]))
    return re.search(r"(?:\\`){3,}", first) is not None and "`" in re.sub(r"\\`", "", first)


DECOMPOSE_KEY = ("text", "raw")  # several recorded findings in one document: see core.sig_hit

SIGS = {
    "escaped_backticks_hide_code_span": _sig_escaped_backticks,
    "quoted_word_after_definition": _sig_quoted_word_after_definition,
    "tag_block_heuristics": _sig_tag_block_heuristics,
    "sticky_wrap_escapes": _sig_sticky_escapes,
    "semantic_sentence_start_unescaped": _sig_semantic_first,
    "hardbreak_in_setext_heading": _sig_hardbreak_setext,
    "blank_lines_settle_on_second_run": _sig_via_c02("blank_lines_settle_on_second_run"),
    "tight_list_flips_loose": _sig_via_c02("tight_list_flips_loose"),
}


@st.composite
def _relayout_case(draw, feat: frozenset):
    raw = draw(textgen.doc_raw(feat, depth=2, hi=4))
    s1 = draw(st.integers(0, 2**20))
    s2 = draw(st.integers(1, 2**20))
    return {"kind": "relayout", "raw": raw, "seed1": s1, "seed2": s2, "opts": _o(draw(opts.width_strategy()), draw(st.booleans()))}


@st.composite
def _relayout_typography_case(draw, feat: frozenset):
    """Relation (a) with the typography and cleanup options on (the same options for both layouts): documents with quote
    and dot tokens."""
    case = draw(_relayout_case(frozenset(feat | {"quotes", "dots"})))
    case["opts"].update(smartquotes=draw(st.booleans()), ellipses=draw(st.booleans()), cleanups=draw(st.booleans()),
                        list_spacing=draw(st.sampled_from(["preserve", "loose", "tight"])))
    return case


@st.composite
def _twopass_case(draw, feat: frozenset):
    text = draw(textgen.doc(feat, depth=2, hi=4))
    w = opts.width_strategy()
    return {"kind": "twopass", "text": text, "o1": [draw(w), draw(st.booleans())], "o2": [draw(w), draw(st.booleans())]}


def shard_work(ctx: Ctx) -> None:
    # tag lines are left out: a paragraph that directly follows a tag line makes every newline in it significant
    # to flowmark's block heuristics, which is outside "a newline directly before or after a tag"
    feat = frozenset((docdomain.features("C03", ctx) - {"tagline"}) | {"no_lone_tick"})
    ctx.run_hypothesis("relayout", _relayout_case(feat), ctx.n(4000, 160000))
    ctx.run_hypothesis("relayout_typography", _relayout_typography_case(feat), ctx.n(2000, 80000))
    # relation (b): no inline tags/comments, no hazard words (none are in the C03 feature set)
    feat_b = frozenset(feat - {"tags", "html", "tagline"})
    ctx.run_hypothesis("two_pass_histories", _twopass_case(feat_b), ctx.n(4000, 150000))
