"""C17 — file discovery returns exactly the wanted files, deterministically.

Oracle: an independent reference walk (own recursion with os.scandir, fnmatch on the restricted pattern shapes that are
generated) computes the expected set; checked both ways (soundness and completeness), plus: absolute, sorted,
duplicate-free, invariant under argument order and directory listing order, and `flowmark --list-files` prints the same list.
"""

from __future__ import annotations

import os
import random
from pathlib import Path

from hypothesis import strategies as st

from vf import fstree
from vf.cliutil import Scratch, run_cli
from vf.core import Ctx, Failure, Note

ID = "C17"
LEVEL = "exploration"
TECHNIQUE = "Hypothesis-generated directory trees x resolver settings x argument mixes; differential against an independent reference walk; permutation invariance (arguments, listing order)"
RULE = (
    "cases = generated trees (depth <= 4, <= 22 entries: default-excluded and ordinary directory names, .md/.mdx/.txt/.markdown files with sizes "
    "around the limit, symlinks to files and directories inside and outside the tree, .flowmarkignore at the root or in a sub-directory) x "
    "settings (include, extend_include, exclude, extend_exclude, force_exclude, files_max_size incl. 0) x arguments (explicit files, "
    "directories, '.', globs, relative and absolute, duplicates, any order); respect_gitignore is off (C18 owns it). Non-trivial = at least "
    "two different filters each exclude a file and a file below the top level is included; distinct by SHA-1 of the case."
)
LEVEL_TEXT = (
    "Generated-input exploration against a reference model written from the property (not from resolver.py): set equality in both "
    "directions, ordering/absoluteness/duplicate checks and permutation invariance on every generated tree; ~1.5k trees quick, ~40k thorough."
)
LEVEL_NOTE = "The reference walk supports exactly the pattern shapes that are generated (basename globs and 'dir/' rules); DEFAULT_EXCLUDES is read from flowmark as configuration data."
ASSUMPTIONS = [
    "exclude / extend_exclude values are directory patterns ('name/'): the statement speaks of excluded directories",
    "a directory named on the command line does not itself have an excluded name; exclusions apply below the directory that is walked",
    "trees used with glob arguments contain no symbolic links (whether glob expansion may follow links is not stated)",
]
BUDGET = {"quick": 70, "thorough": 1200}
CASE_TIMEOUT_S = 15


def _read_rules(p: Path) -> list[str]:
    return [l for l in p.read_text().splitlines() if l.strip() and not l.strip().startswith("#")]


def _nearest_ignore(start: Path) -> list[str]:
    cur = start.resolve()
    while True:
        c = cur / ".flowmarkignore"
        if c.is_file():
            return _read_rules(c)
        if cur.parent == cur:
            return []
        cur = cur.parent


def reference(root: Path, args: list[str], cfg: dict) -> tuple[set[Path], dict]:
    from flowmark.file_resolver.defaults import DEFAULT_EXCLUDES

    include = list(cfg.get("include") or ["*.md"]) + list(cfg.get("extend_include") or [])
    exclude = (list(DEFAULT_EXCLUDES) if cfg.get("exclude") is None else list(cfg["exclude"])) + list(cfg.get("extend_exclude") or [])
    maxsize = cfg.get("files_max_size", 1048576)
    why: dict = {"excluded_dir": 0, "ignored": 0, "too_big": 0, "not_included": 0, "symlink": 0, "deep_included": 0}
    out: set[Path] = set()

    def too_big(p: Path) -> bool:
        return maxsize != 0 and p.stat().st_size > maxsize

    def walk(d: Path, rules: list[str], walk_root: Path) -> None:
        with os.scandir(d) as it:
            entries = sorted(it, key=lambda e: e.name)
        for e in entries:
            p = Path(e.path)
            if e.is_symlink():
                why["symlink"] += 1
                continue
            if e.is_dir():
                if fstree.dir_match_any(e.name, [x for x in exclude if x.endswith("/")]):
                    why["excluded_dir"] += 1
                    continue
                if fstree.dir_match_any(e.name, [x for x in rules if x.endswith("/")]) or fstree.match_any(e.name, rules):
                    why["ignored"] += 1
                    continue
                walk(p, rules, walk_root)
            elif e.is_file():
                if not fstree.match_any(e.name, include):
                    why["not_included"] += 1
                    continue
                if fstree.match_any(e.name, rules):
                    why["ignored"] += 1
                    continue
                if too_big(p):
                    why["too_big"] += 1
                    continue
                if p.parent.resolve() != walk_root.resolve():
                    why["deep_included"] += 1
                out.add(p.resolve())

    for a in args:
        p = Path(a)
        if any(c in a for c in "*?["):
            rules = _nearest_ignore(Path("."))
            for g in sorted(Path(".").glob(a)) if not p.is_absolute() else sorted(Path("/").glob(a.lstrip("/"))):
                if not g.is_file():
                    continue
                rel_parts = g.relative_to(Path(".")).parts if not g.is_absolute() else g.parts
                if not fstree.match_any(g.name, include):
                    why["not_included"] += 1
                    continue
                if any(fstree.dir_match_any(part, [x for x in exclude if x.endswith("/")]) for part in rel_parts[:-1]):
                    why["excluded_dir"] += 1
                    continue
                if fstree.match_any(g.name, rules) or any(fstree.dir_match_any(part, [x for x in rules if x.endswith("/")]) for part in rel_parts[:-1]):
                    why["ignored"] += 1
                    continue
                if too_big(g):
                    why["too_big"] += 1
                    continue
                if len(rel_parts) > 1:
                    why["deep_included"] += 1
                out.add(g.resolve())
        elif p.is_file():
            if cfg.get("force_exclude"):
                dirpats = [x for x in exclude if x.endswith("/")]
                if fstree.match_any(p.name, exclude) or any(fstree.dir_match_any(part, dirpats) for part in p.parts[:-1]):
                    why["excluded_dir"] += 1
                    continue
            if too_big(p):
                why["too_big"] += 1
                continue
            out.add(p.resolve())
        elif p.is_dir():
            walk(p, _nearest_ignore(p), p)
    return out, why


def _resolve(args: list[str], cfg: dict, shuffle_seed: int | None):
    from flowmark.file_resolver import FileResolver, FileResolverConfig

    kw = {k: v for k, v in cfg.items() if k != "include" or v is not None}
    if kw.get("include") is None:
        kw.pop("include", None)
    config = FileResolverConfig(respect_gitignore=False, **kw)
    real_walk = os.walk
    if shuffle_seed is not None:
        rnd = random.Random(shuffle_seed)

        def walk(top, *a, **k):
            for dp, dn, fn in real_walk(top, *a, **k):
                rnd.shuffle(dn)
                rnd.shuffle(fn)
                yield dp, dn, fn

        os.walk = walk
    try:
        return FileResolver(config).resolve(args)
    finally:
        os.walk = real_walk


def _cli_flags(cfg: dict) -> list[str] | None:
    if cfg.get("include") is not None:
        return None  # include is a config-file-only setting
    fl = ["--no-respect-gitignore"]
    for v in cfg.get("extend_include") or []:
        fl += ["--extend-include", v]
    if cfg.get("exclude") is not None:
        if not cfg["exclude"]:
            return None  # an empty replacement list cannot be expressed with flags
        for v in cfg["exclude"]:
            fl += ["--exclude", v]
    for v in cfg.get("extend_exclude") or []:
        fl += ["--extend-exclude", v]
    if cfg.get("force_exclude"):
        fl.append("--force-exclude")
    fl += ["--files-max-size", str(cfg.get("files_max_size", 1048576))]
    return fl


def check_case(case: dict, note: Note) -> Failure | None:
    cfg = dict(case["cfg"])
    with Scratch("vf_c17_") as top:
        root = top / "root"
        root.mkdir()
        fstree.materialise(root, top / "outside", case["tree"], case.get("ignore_files"))
        os.chdir(root)
        args = [a.replace("@ABS", str(root)) for a in case["args"]]
        # soundness of the case: every non-glob argument exists, explicit directories are not excluded names
        for a in args:
            if not any(c in a for c in "*?[") and not Path(a).exists():
                note.label("discarded_missing_arg")
                return None
        want, why = reference(root, args, cfg)
        got = _resolve(args, cfg, None)
        filters_hit = sum(1 for k in ("excluded_dir", "ignored", "too_big", "not_included", "symlink") if why[k])
        note.nontrivial = filters_hit >= 2 and why["deep_included"] > 0
        for k, v in why.items():
            if v:
                note.label("ref_" + k)
        desc = f"tree={case['tree']}\nignore_files={case.get('ignore_files')}\ncfg={cfg}\nargs={args}"
        if any(not p.is_absolute() for p in got):
            return Failure("not-absolute", f"{desc}\nresult={got}")
        if list(got) != sorted(got):
            return Failure("not-sorted", f"{desc}\nresult={got}")
        if len(set(got)) != len(got):
            return Failure("duplicates", f"{desc}\nresult={got}")
        gs = set(got)
        if gs - want:
            extra = sorted(str(p.relative_to(top)) if str(p).startswith(str(top)) else str(p) for p in gs - want)
            return Failure("unwanted-file:" + _classify_extra(extra[0], case), f"{desc}\nreturned but not wanted: {extra}\nwanted: {sorted(str(p.relative_to(top)) for p in want)}")
        if want - gs:
            miss = sorted(str(p.relative_to(top)) for p in want - gs)
            return Failure("missed-file", f"{desc}\nwanted but not returned: {miss}\nreturned: {sorted(str(p) for p in gs)}")
        # permutation invariance
        for seed in (1, 2):
            rnd = random.Random(seed)
            args2 = list(args)
            rnd.shuffle(args2)
            got2 = _resolve(args2, cfg, seed)
            if got2 != got:
                return Failure("order-dependent", f"{desc}\nwith arguments {args2} and shuffled listing order: {got2}\noriginal: {got}")
        fl = _cli_flags(cfg)
        if fl is not None and case.get("cli", True):
            rc, out, err = run_cli(["--list-files"] + fl + args)
            listed = [l for l in out.split("\n") if l]
            if rc != 0 or listed != [str(p) for p in got]:
                return Failure("list-files-differs", f"{desc}\nflowmark --list-files {fl + args} -> exit {rc}\n{listed}\nresolver: {[str(p) for p in got]}\nstderr={err[:200]}")
        os.chdir(top)
    return None


def _classify_extra(rel: str, case: dict) -> str:
    if any(e[0] == "link" and ("root/" + e[1]) == rel for e in case["tree"]) or "outside" in rel:
        return "symlink"
    if any(c in a for a in case["args"] for c in "*?["):
        return "glob"
    return "other"


def _sig_symlinked_file(case: dict, f: Failure) -> bool:
    return f.bucket == "unwanted-file:symlink"


def _sig_glob_unfiltered(case: dict, f: Failure) -> bool:
    return f.bucket == "unwanted-file:glob"


SIGS = {"traversal_returns_symlinked_files": _sig_symlinked_file, "globs_skip_filters": _sig_glob_unfiltered}


@st.composite
def _case(draw, disabled: frozenset):
    use_glob = draw(st.integers(0, 3)) == 0 and "glob_args" not in disabled
    tree = draw(fstree.tree_spec(symlinks=not use_glob and "symlinks" not in disabled))
    dirs = [e[1] for e in tree if e[0] == "dir"]
    files = [e[1] for e in tree if e[0] == "file"]
    links = [e[1] for e in tree if e[0] == "link" and not e[3]]
    ignore_files = {}
    if draw(st.booleans()):
        where = draw(st.sampled_from([""] + dirs)) if dirs else ""
        rules = draw(st.lists(st.sampled_from(["b.md", "*.txt", "drafts/", "x*.md", "# comment", "", "deep/", "README.md", "sub/"]), min_size=1, max_size=3))
        ignore_files[(where + "/" if where else "") + ".flowmarkignore"] = "\n".join(rules) + "\n"
    cfg = {
        "include": draw(st.sampled_from([None, None, None, ["*.md", "*.txt"], ["*.markdown"]])),
        "extend_include": draw(st.sampled_from([[], [], ["*.mdx"], ["*.txt", "*.mdx"]])),
        "exclude": draw(st.sampled_from([None, None, None, ["drafts/"], [], ["sub/", "node_modules/"]])),
        "extend_exclude": draw(st.sampled_from([[], [], ["sub/"], ["drafts/", "deep/"]])),
        "force_exclude": draw(st.booleans()),
        "files_max_size": draw(st.sampled_from([1048576, 0, 60, 30])),
    }
    from flowmark.file_resolver.defaults import DEFAULT_EXCLUDES

    excl = (list(DEFAULT_EXCLUDES) if cfg["exclude"] is None else cfg["exclude"]) + cfg["extend_exclude"]
    # a directory may be named explicitly if its own name is not an excluded one (it may lie below an excluded directory:
    # exclusions apply below the directory that is walked)
    ok_dirs = [d for d in dirs if not fstree.dir_match_any(d.split("/")[-1], [x for x in excl if x.endswith("/")])]
    pool = ["."] + ok_dirs + files + links
    if use_glob:
        pool += ["*.md", "**/*.md", "d*/a.md", "*/*.md", "**/x?.md", "docs/**/*.md"]
    args = draw(st.lists(st.sampled_from(pool), min_size=1, max_size=4))
    args = [("@ABS/" + a if a != "." else "@ABS") if (draw(st.integers(0, 4)) == 0 and not any(c in a for c in "*?[")) else a for a in args]
    return {"tree": tree, "ignore_files": ignore_files, "cfg": cfg, "args": args}


def shard_work(ctx: Ctx) -> None:
    dis = frozenset(ctx.disabled)
    ctx.run_hypothesis("trees", _case(dis), ctx.n(1600, 40000))
