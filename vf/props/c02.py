"""C02 — formatting is idempotent: f(f(x, o), o) == f(x, o), byte for byte."""

from __future__ import annotations

import os

from hypothesis import strategies as st

from vf import docdomain, opts, textgen
from vf.core import Ctx, Failure, Note

ID = "C02"
LEVEL = "exploration"
TECHNIQUE = "Hypothesis-generated documents x full option product; fixed-point oracle f(f(x))==f(x) on bytes; plaintext mode; CLI --inplace twice"
RULE = (
    "cases = Hypothesis documents from the shared Markdown grammar (plus frontmatter-prefixed and plaintext word/paragraph soup) x the full "
    "option product: width in {0,-3,1..12,13..60,72..100,1e6} x semantic x cleanups x smartquotes x ellipses x list_spacing in "
    "{preserve,loose,tight} x plaintext. Non-trivial = f(x,o) != x and the output has a wrapped paragraph, a list, a tag line, a typography "
    "change or frontmatter; distinct by SHA-1 of (text, options)."
)
LEVEL_TEXT = (
    "Generated-input exploration with an exact byte-level fixed-point oracle over the whole option product; the thorough tier also drives "
    "the real CLI with --inplace twice on a sample. Held on everything explored; features that hit recorded known findings are off (listed)."
)
LEVEL_NOTE = "No model: the oracle is the function itself applied twice, as the property states."
ASSUMPTIONS = [
    "documents come from the shared grammar (vf/textgen.py) restricted to the feature set in vf/docdomain.py",
    "plaintext inputs are words/paragraphs over letters, punctuation, tags and code spans separated by blank lines",
]
BUDGET = {"quick": 150, "thorough": 1800}


def _show(s: str, n: int = 800) -> str:
    r = repr(s)
    return r if len(r) <= n else r[:n] + "…"


def check_case(case: dict, note: Note) -> Failure | None:
    x, o = case["text"], dict(case["opts"])
    kind = case.get("kind", "md")
    if kind == "cli":
        return _cli(case, note)
    once = opts.fmt(x, o)
    twice = opts.fmt(once, o)
    lines = once.split("\n")
    wrapped = any(a.strip() and b.strip() for a, b in zip(lines, lines[1:]))
    note.nontrivial = once != x and (wrapped or any(l.lstrip().startswith(("- ", "* ", "+ ", "1.")) for l in lines) or once.startswith("---"))
    if o.get("plaintext"):
        note.label("plaintext")
    if o.get("smartquotes") or o.get("ellipses"):
        note.label("typography_on")
    if o.get("width", 88) <= 12 and o.get("width", 88) > 0:
        note.label("narrow_width")
    if twice != once:
        i = next((k for k, (a, b) in enumerate(zip(once, twice)) if a != b), min(len(once), len(twice)))
        return Failure(
            "not-idempotent" + (":plaintext" if o.get("plaintext") else ""),
            f"input={_show(x)}\nopts={o}\nonce ={_show(once)}\ntwice={_show(twice)}\nfirst difference at offset {i}: {once[max(0, i - 30):i + 30]!r} vs {twice[max(0, i - 30):i + 30]!r}",
        )
    return None


def _cli(case: dict, note: Note) -> Failure | None:
    import contextlib
    import io
    import tempfile
    from pathlib import Path

    from flowmark import cli

    x, o = case["text"], case["opts"]
    argv = ["--inplace", "--nobackup", "-w", str(o["width"]), "--list-spacing", o["list_spacing"]]
    for flag in ("semantic", "cleanups", "smartquotes", "ellipses"):
        if o[flag]:
            argv.append("--" + flag)
    note.nontrivial = True
    note.label("cli_inplace_twice")
    with tempfile.TemporaryDirectory(prefix="vf_c02_") as d:
        p = Path(d) / "doc.md"
        p.write_text(x, encoding="utf-8")
        cwd = os.getcwd()
        os.chdir(d)
        try:
            outs = []
            for _ in range(2):
                with contextlib.redirect_stdout(io.StringIO()), contextlib.redirect_stderr(io.StringIO()):
                    rc = cli.main(argv + [str(p)])
                if rc != 0:
                    return Failure("cli-nonzero-exit", f"flowmark {' '.join(argv)} exited {rc} on {_show(x)}")
                outs.append(p.read_text(encoding="utf-8"))
        finally:
            os.chdir(cwd)
    if outs[0] != outs[1]:
        return Failure("cli-not-idempotent", f"input={_show(x)}\nargv={argv}\nonce ={_show(outs[0])}\ntwice={_show(outs[1])}")
    return None


def _sig_nested_quotes(case: dict, f: Failure) -> bool:
    """Smart quotes only: the second run differs from the first only by converting further straight quotes (a quoted
    phrase nested inside, or next to, one converted by the first run), no pair converted late encloses curly quotes of its
    own kind, and without smart quotes the case is idempotent."""
    o = dict(case["opts"])
    if not o.get("smartquotes") or case.get("kind", "md") != "md" or not f.bucket.startswith("not-idempotent"):
        return False
    once = opts.fmt(case["text"], o)
    twice = opts.fmt(once, o)
    if len(once) != len(twice):
        return False
    late: list[int] = []
    for i, (a, b) in enumerate(zip(once, twice)):
        if a == b:
            continue
        if not ((a == "'" and b in "‘’") or (a == '"' and b in "“”")):
            return False
        late.append(i)
    # A pair converted late never encloses curly quotes of its own kind: the conversion pattern excludes them from the
    # quoted content (a straight pair around an already converted pair of the same kind must stay as it is).
    for k, i in enumerate(late):
        if twice[i] not in "“‘":
            continue
        same = "“”" if twice[i] == "“" else "‘’"
        j = next((q for q in late[k + 1:] if twice[q] == same[1]), None)
        if j is not None and any(c in same for c in once[i + 1:j]):
            return False
    o2 = dict(o, smartquotes=False)
    once2 = opts.fmt(case["text"], o2)
    return opts.fmt(once2, o2) == once2


def _sig_quote_blank_trailing_space(case: dict, f: Failure) -> bool:
    """The two runs differ only by a trailing space on lines that consist of container prefix characters only
    ('  >' written as an item break before the first item of a list, '  > ' when read back as a blank line)."""
    if case.get("kind", "md") != "md" or not f.bucket.startswith("not-idempotent"):
        return False
    o = dict(case["opts"])
    once = opts.fmt(case["text"], o)
    twice = opts.fmt(once, o)
    a, b = once.split("\n"), twice.split("\n")
    if len(a) != len(b):
        return False
    diff = [(x, y) for x, y in zip(a, b) if x != y]
    return bool(diff) and all(x.rstrip() == y.rstrip() and set(x.strip()) <= {">", " "} and x.strip() for x, y in diff)


def _sig_semantic_sentence_start(case: dict, f: Failure) -> bool:
    """Same root cause as C01's known finding: in semantic mode a sentence-initial word that starts a block construct
    lands unescaped at a line start, so the first output reads differently from the input and the second run differs.
    Narrow: semantic only, idempotent in fill mode at the same width, and the C01 signature matches the input."""
    from vf.props import c01

    o = dict(case["opts"])
    if case.get("kind", "md") != "md" or o.get("plaintext") or not o.get("semantic") or o.get("width", 88) <= 0:
        return False
    o2 = dict(o, semantic=False)
    once2 = opts.fmt(case["text"], o2)
    if opts.fmt(once2, o2) != once2:
        return False
    return c01.semantic_sentence_start_hit(opts.fmt(case["text"], o))


def _sig_period_escape(case: dict, f: Failure) -> bool:
    """The two runs differ only by a backslash before a period that follows digits (the renderer's "is this escaped
    period at the start of the text" test looks at the accumulated text without markup and line breaks)."""
    if case.get("kind", "md") != "md" or not f.bucket.startswith("not-idempotent"):
        return False
    o = dict(case["opts"])
    once = opts.fmt(case["text"], o)
    twice = opts.fmt(once, o)
    import re

    def norm(t: str) -> str:
        # (next to a tag line the unescaped "1. x" is also taken for block content and set off by a blank line)
        return "\n".join(l for l in re.sub(r"(\d)\\\.", r"\1.", t).split("\n") if l.strip(" >"))

    return once != twice and norm(once) == norm(twice) and len(re.findall(r"\d\\\.", once)) > len(re.findall(r"\d\\\.", twice))


def _sig_list_under_pipe_line(case: dict, f: Failure) -> bool:
    """A paragraph whose last output line has a pipe is directly followed (no blank line in the source either) by a list item
    line: Marko's table parser accepts any cell that starts with dashes as a delimiter cell, so the second run reads
    "text |<NL>- item" as a one-column table and writes the item as dashes."""
    import re

    if case.get("kind", "md") != "md" or not f.bucket.startswith("not-idempotent"):
        return False
    o = dict(case["opts"])
    once = opts.fmt(case["text"], o)
    twice = opts.fmt(once, o)
    return once != twice and re.search(r"\|[^\n]*\n[ >]*-[ \t]", once) is not None and re.search(r"^[ >]*\|( :?-+:? \|)+$", twice, re.M) is not None


def _sig_table_first_in_item(case: dict, f: Failure) -> bool:
    """The first run writes a table as the FIRST block of a list item ("- | a |<NL>  | --- |"), which Marko does not read
    as a table (it only finds the delimiter row when it is another item's marker line, "- | a |<NL>- -"): the second run
    sees a paragraph."""
    import re

    if case.get("kind", "md") != "md" or not f.bucket.startswith("not-idempotent"):
        return False
    o = dict(case["opts"])
    once = opts.fmt(case["text"], o)
    twice = opts.fmt(once, o)
    pat = r"^[ >]*(?:[-*+]|\d+[.)])[ \t]+\|.*\|\n[ >]+\|( :?-+:? \|)+$"
    return re.search(pat, once, re.M) is not None or re.search(pat, twice, re.M) is not None


def _sig_def_label_lone_backslash(case: dict, f: Failure) -> bool:
    """A one-line paragraph "[a]:\\" (label, colon, lone backslash) that Marko reads as a paragraph when a list follows
    directly and as a definition with destination "\\" once a blank line follows."""
    import re

    if case.get("kind", "md") != "md" or not f.bucket.startswith("not-idempotent"):
        return False
    once = opts.fmt(case["text"], dict(case["opts"]))
    return re.search(r"^[ >]*\[[^\]\n]+\]:[ \t]*\\$", once, re.M) is not None


def _sig_escaped_numeral_in_tag_paragraph(case: dict, f: Failure) -> bool:
    """Same root cause as C01's finding of this name: a paragraph with a tag-delimiter line and a source line that starts
    with an escaped numeral; with the numeral escapes written as entities (nothing for the renderer to drop) the input is
    formatted idempotently."""
    import re

    from vf.props import c01

    if case.get("kind", "md") != "md" or case["opts"].get("plaintext") or not f.bucket.startswith("not-idempotent"):
        return False
    x, o = case["text"], dict(case["opts"])
    if not (c01._TAG_EDGE.search(x) and c01._ESC_NUM_LINE.search(x)):
        return False
    x2 = re.sub(r"^([ \t>]*(?:[-*+] +)?\d{1,9})\\([.)])", lambda m: m.group(1) + ("&#46;" if m.group(2) == "." else "&#41;"), x, flags=re.M)
    once = opts.fmt(x2, o)
    return opts.fmt(once, o) == once


def _sig_tag_block_heuristics(case: dict, f: Failure) -> bool:
    """A paragraph has a line that starts or ends with a tag delimiter, which switches on the tag heuristics (lines that look
    like list items or table rows keep their own line, are not escaped, and are set off from a tag line by a blank line).
    They look at the line structure of the text they are given, and the first run's wrapping changes that structure: the
    second run differs from the first only by line breaks, blank lines, indentation and numeral escapes."""
    import re

    from vf.props import c01

    if case.get("kind", "md") != "md" or case["opts"].get("plaintext") or not f.bucket.startswith("not-idempotent"):
        return False
    o = dict(case["opts"])
    once = opts.fmt(case["text"], o)
    twice = opts.fmt(once, o)
    if c01.tag_and_block_like_paragraph(case["text"]) or c01.tag_and_block_like_paragraph(once):
        return True  # the family as C01 defines it (block_like_line_next_to_tag_line)
    if not c01._TAG_EDGE.search(once):
        return False

    def norm(t: str) -> list[str]:
        return [w for w in re.sub(r"(\d)\\([.)])", r"\1\2", t).split() if w != ">"]

    return once != twice and norm(once) == norm(twice)


def _sig_code_span_edge_spaces(case: dict, f: Failure) -> bool:
    """The first output has a code span whose content begins and ends with a space (and is not all spaces)."""
    import re

    if case.get("kind", "md") != "md" or case["opts"].get("plaintext") or not f.bucket.startswith("not-idempotent"):
        return False
    once = opts.fmt(case["text"], dict(case["opts"]))
    return re.search(r"(?<!`)(`+) (?:[^`\n]|(?!\1(?!`))`)*[^ `\n](?:[^`\n]|(?!\1(?!`))`)* \1(?!`)", once) is not None


def _sig_closing_tag_leaves_container(case: dict, f: Failure) -> bool:
    """Same root cause as C01's finding of this name: a closing tag alone on an indented line inside a list item or footnote is
    un-indented by the first run and leaves its container; the second run formats a different document."""
    import re

    if case.get("kind", "md") != "md" or case["opts"].get("plaintext") or not f.bucket.startswith("not-idempotent"):
        return False
    closing = r"(?:\{% /|\{# /|\{\{ /|<!-- /).*(?:%\}|#\}|\}\}|-->)"
    inside = {m.group(1) for m in re.finditer(r"^[ \t]+(" + closing + r")[ \t]*\\?$", case["text"], re.M)}
    once = [l.rstrip("\\") for l in opts.fmt(case["text"], dict(case["opts"])).split("\n")]
    return any(t in once for t in inside)


def _sig_pipe_line_under_table(case: dict, f: Failure) -> bool:
    """Same root cause as C01's finding of this name: a line holding only "|" directly under a table starts a paragraph
    there; the first run joins its words to "| x", which the second run reads as a table row."""
    import re

    if case.get("kind", "md") != "md" or case["opts"].get("plaintext") or not f.bucket.startswith("not-idempotent"):
        return False
    return re.search(r"\|[^\n]*\n[ \t>]*\|[ \t]*\n", case["text"] + "\n") is not None


def _sig_tight_list_flips(case: dict, f: Failure) -> bool:
    """list_spacing=preserve: the second run only ADDS blank lines, each directly before a list item marker, and the
    third run changes nothing (a tight list whose item holds several blocks -- e.g. a heading followed by text, or a
    loose nested list -- is read back as loose, so its remaining items get separated on the next run)."""
    import re

    if case.get("kind", "md") != "md" or not f.bucket.startswith("not-idempotent"):
        return False
    o = dict(case["opts"])
    if o.get("plaintext") or o.get("list_spacing") != "preserve":
        return False
    once = opts.fmt(case["text"], o)
    twice = opts.fmt(once, o)
    if opts.fmt(twice, o) != twice:
        return False
    a, b = once.split("\n"), twice.split("\n")
    i = j = 0
    added = 0
    marker = re.compile(r"^[ \t>]*([-*+]|\d{1,9}[.)])([ \t]|$)")
    while j < len(b):
        if i < len(a) and a[i] == b[j]:
            i += 1
            j += 1
            continue
        # b has an extra line: it must be blank (prefix only) and be followed by a list item line
        at_end = all(x.strip() == "" for x in b[j:])  # blank line after a heading that ends the (now loose) list
        if set(b[j].strip()) <= {">"} and (at_end or (j + 1 < len(b) and marker.match(b[j + 1]))):
            j += 1
            added += 1
            continue
        return False
    return i == len(a) and added > 0


def _sig_blank_lines_settle(case: dict, f: Failure) -> bool:
    """Markdown mode: the first and second outputs are identical once lines holding only container prefix characters
    ('>' and whitespace) are removed, and the second output is a fixed point (up to a trailing blank on such a line, which
    the third run settles). (Blank-line placement inside containers
    depends on renderer flags whose state differs between reading the source and reading flowmark's own output.)"""
    if case.get("kind", "md") != "md" or not f.bucket.startswith("not-idempotent"):
        return False
    o = dict(case["opts"])
    if o.get("plaintext"):
        return False
    once = opts.fmt(case["text"], o)
    twice = opts.fmt(once, o)
    if once == twice:
        return False
    third = opts.fmt(twice, o)
    if third != twice and (opts.fmt(third, o) != third or [l.rstrip() for l in third.split("\n")] != [l.rstrip() for l in twice.split("\n")]):
        return False  # not settled after the second run (a third run may still turn ">" into "> " on such a line)

    def core_lines(t: str) -> list[str]:
        if o.get("smartquotes"):  # may coincide with the nested-quote finding: compare modulo quote style
            t = t.translate({0x2018: "'", 0x2019: "'", 0x201C: '"', 0x201D: '"'})
        return [l.rstrip() for l in t.split("\n") if not set(l.strip()) <= {">"}]

    if core_lines(once) != core_lines(twice):
        return False
    if o.get("smartquotes"):
        o2 = dict(o, smartquotes=False)
        a2 = opts.fmt(case["text"], o2)
        b2 = opts.fmt(a2, o2)
        # (the blank-line effect must be there without smart quotes as well: a difference in quote style alone is not it)
        return a2 != b2 and core_lines(a2) == core_lines(b2)
    return True


def _sig_hardbreak_in_setext(case: dict, f: Failure) -> bool:
    """Same root cause as C01's finding of this name: the input has a setext heading containing a hard line break."""
    from vf import canon
    from vf.props import c01

    if case.get("kind", "md") != "md" or case["opts"].get("plaintext"):
        return False
    return c01._has_heading_with_br(canon.canon_in(case["text"])[1])


def _sig_ellipsis_before_escape(case: dict, f: Failure) -> bool:
    """Same root cause as C09's finding of this name (ellipses on; '...' directly before a backslash escape in the first output)."""
    import re

    o = dict(case["opts"])
    if case.get("kind", "md") != "md" or not o.get("ellipses") or o.get("plaintext"):
        return False
    once = opts.fmt(case["text"], o)
    o2 = dict(o, ellipses=False)
    once2 = opts.fmt(case["text"], o2)
    return re.search(r"\.\.\.[^\s\w]*[ \t]*(?:\n[ \t>]*)?\\|\\[^\w\s][ \t]*(?:\n[ \t>]*)?\.\.\.", once) is not None and opts.fmt(once2, o2) == once2


def OPTION_VARIANTS(case: dict) -> list[dict]:
    """The case with one of the switched-on options switched off (see core.sig_hit)."""
    if case.get("kind", "md") != "md":
        return []
    o = case["opts"]
    return [dict(case, opts=dict(o, **{k: False})) for k in ("smartquotes", "ellipses", "cleanups", "semantic") if o.get(k)]


DECOMPOSE_KEY = "text"  # several recorded findings in one document: see core.sig_hit

SIGS = {
    "pipe_line_under_table": _sig_pipe_line_under_table,
    "closing_tag_leaves_container": _sig_closing_tag_leaves_container,
    "code_span_edge_spaces": _sig_code_span_edge_spaces,
    "tag_block_heuristics_second_run": _sig_tag_block_heuristics,
    "escaped_numeral_in_tag_paragraph": _sig_escaped_numeral_in_tag_paragraph,
    "def_label_with_lone_backslash": _sig_def_label_lone_backslash,
    "table_first_block_of_list_item": _sig_table_first_in_item,
    "list_directly_under_pipe_line": _sig_list_under_pipe_line,
    "ellipsis_before_escape": _sig_ellipsis_before_escape,
    "hardbreak_in_setext_heading": _sig_hardbreak_in_setext,
    "blank_lines_settle_on_second_run": _sig_blank_lines_settle,
    "tight_list_flips_loose": _sig_tight_list_flips,
    "period_escape_after_markup": _sig_period_escape,
    "smartquotes_nested_second_pass": _sig_nested_quotes,
    "quote_blank_trailing_space": _sig_quote_blank_trailing_space,
    "semantic_sentence_start_unescaped": _sig_semantic_sentence_start,
}

PT_WORDS = ["alpha", "beta", "word.", "longerword", "it's", "\"q\"", "...", "-", "1.", "#", ">", "`a b`", "{% tag %}", "<!-- c -->", "[l](u)", "x", "中文", "end!", "a  b"]


@st.composite
def _plaintext_case(draw):
    paras = draw(st.lists(st.lists(st.sampled_from(PT_WORDS), min_size=1, max_size=20), min_size=1, max_size=4))
    gap = draw(st.sampled_from(["\n\n", "\n\n\n", "\n \n"]))
    inner = draw(st.sampled_from([" ", " ", "\n", "  ", "\n  "]))
    lead = draw(st.sampled_from(["", "", " ", "\n", "  \n"]))
    trail = draw(st.sampled_from(["", "\n", "\n\n", " "]))
    text = lead + gap.join(inner.join(p) for p in paras) + trail
    return {"kind": "md", "text": text, "opts": {"width": draw(opts.width_strategy()), "plaintext": True}}


@st.composite
def _md_case(draw, feat: frozenset, kind: str = "md"):
    text = draw(textgen.doc(feat, depth=2, hi=5))
    fm = draw(st.sampled_from(["", "", "", "", "---\ntitle: T\n---\n", "---\nk: 'v'\n---\n\n", "---\nunclosed: yes\n"]))
    o = draw(opts.md_options())
    if kind == "cli" and o["width"] == 10**6:
        o["width"] = 200
    return {"kind": kind, "text": fm + text, "opts": o}


@st.composite
def _hazard_case(draw):
    """A paragraph of filler words and block-marker look-alikes in a container, at every width around its length: the words
    that get escaped at a wrapped line start (and so change width between the first and the second run)."""
    from vf.props import c01

    n = draw(st.integers(2, 9))
    # "{%" and "<!--" switch on the tag heuristics (recorded known finding tag-block-heuristics-second-run): left out here
    # two lone "`" / "````" words make a code span whose content begins and ends with a space (known finding
    # code-span-edge-spaces): left out as well
    haz = [h for h in c01.HAZARDS if h not in ("{%", "<!--", "`", "````")]
    words = [draw(st.sampled_from(c01.FILL)) if draw(st.integers(0, 2)) else draw(st.sampled_from(haz)) for _ in range(n)]
    if draw(st.booleans()):
        words[0] = draw(st.sampled_from(c01.FILL))
    ii, _si = c01.CONTEXTS[draw(st.sampled_from(sorted(c01.CONTEXTS)))]
    text = ii + " ".join(words) + "\n"
    o = draw(opts.md_options())
    o["width"] = draw(st.integers(1, len(text) + 2))
    return {"kind": "md", "text": text, "opts": o}


def shard_work(ctx: Ctx) -> None:
    feat = frozenset(docdomain.features("C02", ctx) | {"no_lone_tick"})
    ctx.run_hypothesis("hazard_words_every_width", _hazard_case(), ctx.n(6000, 300000))
    ctx.run_hypothesis("markdown", _md_case(feat), ctx.n(6000, 300000))
    ctx.run_hypothesis("markdown_typography", _md_case(frozenset(feat | {"quotes", "dots"})), ctx.n(2000, 100000))
    ctx.run_hypothesis("plaintext", _plaintext_case(), ctx.n(2000, 60000))
    if not ctx.quick:
        ctx.run_hypothesis("cli_inplace_twice", _md_case(feat, "cli"), ctx.n(0, 6000))
