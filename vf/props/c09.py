"""C09 — ellipsis conversion touches only three-dot runs in prose."""

from __future__ import annotations

import itertools
import re

from hypothesis import strategies as st

from vf import canon, literals, opts, textgen
from vf.core import Ctx, Failure, Note

ID = "C09"
LEVEL = "exploration"
TECHNIQUE = "bounded-exhaustive strings over an 11-symbol alphabet for ellipses() + Hypothesis documents; inverse-mapping differential against the option-off output; idempotence"
RULE = (
    "exhaustive core: every string of length <= L over {a SPACE . ' \" , NEWLINE - ) … 1} through typography.ellipses (L=6 quick, 7 thorough): "
    "inv(result) == inv(input) where inv maps … to ... and drops spaces next to dot runs; dot-free input unchanged; second application is "
    "the identity. Documents: Hypothesis Markdown with ... in prose positions, next to quotes/punctuation and inside every protected span x "
    "other options: canonical tree of f(x, on) equals that of f(x, off) after inv on text leaves; literal spans and tags equal; "
    "f(f(x,on),on)==f(x,on). Non-trivial = input contains '...' (prose or protected span); distinct by SHA-1 of the case."
)
LEVEL_TEXT = (
    "Exhaustive over all short strings of the rewrite's decision alphabet and generated-input exploration at document level with an "
    "inverse-mapping differential oracle (no expected strings). Held on everything explored."
)
LEVEL_NOTE = "Document comparison reads both outputs with flowmark's parser; a discrepancy that disappears at width 0 is attributed to wrapping (C01/C02 domain), counted and not reported here."
ASSUMPTIONS = [
    "inv() is deliberately lossy around dot runs (spaces next to any run of >= 3 dots are ignored on both sides)",
    "document-level discrepancies are only reported if they persist with wrapping off (width 0)",
]
BUDGET = {"quick": 70, "thorough": 1500}

ALPHA = ["a", " ", ".", "'", '"', ",", "\n", "-", ")", "…", "1"]
_DOTS = re.compile(r"[ \t]*(\.{3,})[ \t]*")


def inv(s: str) -> str:
    return _DOTS.sub(r"\1", s.replace("…", "..."))


def _show(s: str, n: int = 600) -> str:
    r = repr(s)
    return r if len(r) <= n else r[:n] + "…"


def _doc_check(x: str, o: dict, note: Note | None) -> Failure | None:
    a = opts.fmt(x, dict(o, ellipses=False))
    b = opts.fmt(x, dict(o, ellipses=True))
    co = canon.canon_out(a)
    neutral = a if not (o.get("smartquotes") or o.get("cleanups")) else opts.fmt(x, dict(o, ellipses=False, smartquotes=False, cleanups=False))
    if canon.canon_out(neutral)[1] != canon.canon_in(x)[1]:
        # the option-off output is not read back as the input is (a C01 matter); the relation is not meaningful
        if note:
            note.label("skipped_output_misread")
        return None
    ca = canon.map_text(co, inv)
    cb = canon.map_text(canon.canon_out(b), inv)
    if ca != cb:
        d = canon.first_diff(ca, cb)
        return Failure("doc-structure-or-text-changed", f"input={_show(x)}\nopts={o}\noff={_show(a)}\non ={_show(b)}\nfirst difference at {d[0]}: {d[1]!r} vs {d[2]!r}")
    la = literals.tree_literals(canon.read_out(a))
    lb = literals.tree_literals(canon.read_out(b))
    if la != lb:
        d = next((p for p in zip(la, lb) if p[0] != p[1]), (la[len(lb):] or lb[len(la):]))
        return Failure("doc-protected-span-changed", f"input={_show(x)}\nopts={o}\nfirst differing literal {d!r}\noff={_show(a)}\non ={_show(b)}")
    ta, tb = literals.tags_of(a), literals.tags_of(b)
    if ta != tb:
        return Failure("doc-tag-touched", f"input={_show(x)}\nopts={o}\ntags off={ta!r}\ntags on ={tb!r}")
    b2 = opts.fmt(b, dict(o, ellipses=True))
    if b2 != b:
        # only an ellipsis matter if plain idempotence (option off) holds for the same output
        a2 = opts.fmt(a, dict(o, ellipses=False))
        if a2 == a:
            return Failure("doc-second-application-changes", f"input={_show(x)}\nopts={o}\nonce ={_show(b)}\ntwice={_show(b2)}")
        if note:
            note.label("idempotence_skipped_c02_issue")
    if note:
        in_prot = any("..." in str(v) for rec in la for v in rec[1:]) or any("..." in t for t in ta)
        note.nontrivial = "..." in x
        if a != b:
            note.label("some_ellipsis_converted")
        if in_prot:
            note.label("dots_in_protected_span")
        if o.get("smartquotes"):
            note.label("smartquotes_on")
    return None


def check_case(case: dict, note: Note) -> Failure | None:
    from flowmark.typography.ellipses import ellipses

    kind = case["kind"]
    if kind == "str":
        s = case["s"]
        r = ellipses(s)
        note.nontrivial = "..." in s
        if "..." not in s and r != s:
            return Failure("string-changed-without-dots", f"ellipses({s!r}) = {r!r}")
        if inv(r) != inv(s):
            return Failure("string-other-characters-changed", f"ellipses({s!r}) = {r!r}; inv: {inv(s)!r} vs {inv(r)!r}")
        r2 = ellipses(r)
        if r2 != r:
            return Failure("string-not-idempotent", f"ellipses({s!r}) = {r!r}; again = {r2!r}")
        return None
    if kind == "doc":
        x, o = case["text"], dict(case["opts"])
        o.pop("ellipses", None)
        f = _doc_check(x, o, note)
        if f is not None and o.get("width", 88) > 0:
            f0 = _doc_check(x, dict(o, width=0), None)
            if f0 is None:
                note.label("wrap_dependent_discrepancy_skipped")
                return None
            return f0
        return f
    raise AssertionError(kind)


def _sig_ellipsis_before_escape(case: dict, f: Failure) -> bool:
    """The first output has '...' directly followed (after optional spaces) by a backslash escape: the text node then
    ends at the escape on the next run, and the end of a text node counts as a boundary for the ellipsis rule."""
    import re

    if case.get("kind") != "doc" or f.bucket != "doc-second-application-changes":
        return False
    o = dict(case["opts"])
    o.pop("ellipses", None)
    once = opts.fmt(case["text"], dict(o, ellipses=True))
    return re.search(r"\.\.\.[^\s\w]*[ \t]*(?:\n[ \t>]*)?\\|\\[^\w\s][ \t]*(?:\n[ \t>]*)?\.\.\.", once) is not None


SIGS = {"ellipsis_before_escape": _sig_ellipsis_before_escape}


def _sweep(ctx: Ctx, L: int):
    idx = 0
    for n in range(0, L + 1):
        for tup in itertools.product(ALPHA, repeat=n):
            idx += 1
            if idx % ctx.nshards != ctx.shard:
                continue
            yield {"kind": "str", "s": "".join(tup)}


FEAT = (textgen.ALL | {"dots", "quotes"}) - {"tagline"}


@st.composite
def _doc_case(draw):
    feat = draw(st.sampled_from([FEAT, FEAT, frozenset({"dots", "quotes", "code", "emph", "link", "tags", "escape", "html", "hardbreak", "list", "quote", "table", "atx", "autolink"})]))
    text = draw(textgen.doc(feat, depth=2, hi=4))
    o = draw(opts.md_options())
    if draw(st.integers(0, 2)) == 0:
        o["width"] = 0
    return {"kind": "doc", "text": text, "opts": o}


def shard_work(ctx: Ctx) -> None:
    ctx.run_cases("sweep_ellipses", _sweep(ctx, 6 if ctx.quick else 7), exhaustive=True)
    ctx.run_hypothesis("documents", _doc_case(), ctx.n(5000, 160000))


EXHAUSTIVE_IF = {"quick": ["sweep_ellipses"], "thorough": ["sweep_ellipses"]}
