"""C14 — in-place formatting never leaves a damaged or half-written file.

Every scenario is first run fault-free in a forked child with an audit hook that records the file-system operations
under the scratch directory (open for read/write, rename/replace, mkdir, remove, truncate, link, copy, ...). Then EVERY
operation index k is enumerated with two fault kinds -- an OSError raised just before the operation (the process goes on)
and process death (os._exit) just before it -- plus write-level faults: a file-size limit of L bytes (L = 0, 1, half, all-1
of the new content) that either kills the process in the middle of a write (SIGXFSZ) or makes the write fail (EFBIG).
The parent inspects the directory afterwards.
"""

from __future__ import annotations

import errno
import json
import os
import resource
import shutil
import signal
import sys
import tempfile
from pathlib import Path

from hypothesis import strategies as st

from vf import textgen
from vf.core import Ctx, Failure, HarnessError, Note

ID = "C14"
LEVEL = "fault_enumeration"
TECHNIQUE = "exhaustive fault injection over the observed file-system operation trace (error and crash before every operation, size-limit faults in the middle of writes) for generated contents x CLI/API scenarios; state oracle target in {old, new}"
RULE = (
    "for each (scenario, content): a fault-free run records the trace of file-system operations via sys.addaudithook; then every operation "
    "index x {OSError, process death} and file-size limits {0, 1, half, len-1 bytes} x {SIGXFSZ death, EFBIG error} are injected in forked "
    "children. Scenarios: --inplace (backup), --inplace --nobackup, --auto, stdin -> -o new / -o existing / -o missing/dir/out, "
    "reformat_file(path, output) to a new and to an existing path, three files in place with file 2 fine / undecodable / making the formatter "
    "raise. Non-trivial = the fault lies at or after the first write-open and old != new; distinct by SHA-1 of (scenario, content, fault)."
)
LEVEL_TEXT = (
    "Fault enumeration: exhaustive over the operation trace of each scenario (every point between two file-system operations, both failure "
    "and process death) and over byte positions {0, 1, half, len-1} inside writes, sampled over file contents and scenarios; after each "
    "faulted run the target path must hold the complete old or the complete new content (or be absent with old content in .orig when backups "
    "are on), inputs of non-inplace runs must be untouched."
)
LEVEL_NOTE = "Faults are injected at Python-level file-system operations (audit events) and by RLIMIT_FSIZE; durability across power loss (fsync) is not part of the property. strif's atomic_output_file is part of the tested system."
ASSUMPTIONS = [
    "process death is modelled by os._exit before an operation and by SIGXFSZ in the middle of a write",
    "stray '*.partial' temp files after a crash are reported in the evidence but are not a violation (the statement is about the target path)",
    "the scratch directory is on a file system where rename within a directory is atomic",
]
BUDGET = {"quick": 120, "thorough": 1800}
CASE_TIMEOUT_S = 60

WATCH = {"open", "os.rename", "os.mkdir", "os.remove", "os.rmdir", "os.truncate", "os.link", "os.symlink", "shutil.copyfile", "shutil.move",
         "shutil.copy2", "shutil.copymode", "shutil.copystat", "os.chmod", "os.utime", "os.chown"}

_STATE = {"on": False, "root": "", "n": 0, "k": None, "mode": None, "trace": []}
_HOOKED = False


def _hook(ev, args):
    st_ = _STATE
    if not st_["on"] or ev not in WATCH:
        return
    cand = args[:1] if ev == "open" else args[:2]
    paths = [os.fspath(a) for a in cand if isinstance(a, (str, bytes, os.PathLike))]
    paths = [p.decode() if isinstance(p, bytes) else p for p in paths]
    paths = [os.path.abspath(p) for p in paths]
    if not any(p.startswith(st_["root"]) for p in paths):
        return
    if ev == "open":
        mode = args[1] if len(args) > 1 and isinstance(args[1], str) else ""
        flags = args[2] if len(args) > 2 and isinstance(args[2], int) else 0
        writing = any(c in (mode or "") for c in "wax+") or bool(flags & (os.O_WRONLY | os.O_RDWR | os.O_CREAT | os.O_TRUNC))
        desc = ("open-w " if writing else "open-r ") + os.path.relpath(paths[0], st_["root"])
    else:
        desc = ev + " " + " -> ".join(os.path.relpath(p, st_["root"]) for p in paths)
    st_["n"] += 1
    st_["trace"].append(desc)
    if st_["k"] == st_["n"]:
        if st_["mode"] == "crash":
            os._exit(137)
        raise OSError(errno.EIO, "injected I/O error (C14)")


def _run_child(root: Path, scenario: dict, fault: dict | None) -> dict:
    """Fork; in the child run the scenario under the fault; return {'rc', 'n', 'trace', 'status'}."""
    global _HOOKED
    rfd, wfd = os.pipe()
    sys.stdout.flush()
    sys.stderr.flush()
    pid = os.fork()
    if pid == 0:
        try:
            os.close(rfd)
            os.chdir(root)
            devnull = os.open(os.devnull, os.O_RDWR)
            os.dup2(devnull, 1)
            os.dup2(devnull, 2)
            signal.alarm(0)
            sys.setrecursionlimit(1000)  # the interpreter default, so that RAISES does raise
            if not _HOOKED:
                sys.addaudithook(_hook)
            if fault and fault["kind"] in ("fsize-crash", "fsize-error"):
                if fault["kind"] == "fsize-error":
                    signal.signal(signal.SIGXFSZ, signal.SIG_IGN)
                else:
                    signal.signal(signal.SIGXFSZ, signal.SIG_DFL)
                resource.setrlimit(resource.RLIMIT_FSIZE, (fault["limit"], resource.RLIM_INFINITY))
            _STATE.update(on=True, root=str(root), n=0, trace=[], k=(fault["k"] if fault and fault["kind"] in ("error", "crash") else None),
                          mode=(fault["kind"] if fault else None))
            rc = _execute(scenario)
            _STATE["on"] = False
            try:
                resource.setrlimit(resource.RLIMIT_FSIZE, (resource.RLIM_INFINITY, resource.RLIM_INFINITY))
            except (ValueError, OSError):
                pass
            os.write(wfd, json.dumps({"rc": rc, "n": _STATE["n"], "trace": _STATE["trace"]}).encode())
        except BaseException as e:  # noqa: BLE001
            try:
                os.write(wfd, json.dumps({"rc": f"exception:{type(e).__name__}", "n": _STATE["n"], "trace": _STATE["trace"]}).encode())
            except BaseException:  # noqa: BLE001
                pass
        finally:
            os._exit(0)
    os.close(wfd)
    chunks = []
    while True:
        b = os.read(rfd, 65536)
        if not b:
            break
        chunks.append(b)
    os.close(rfd)
    _, status = os.waitpid(pid, 0)
    data = b"".join(chunks)
    res = json.loads(data) if data else {"rc": None, "n": None, "trace": None}
    res["status"] = status
    return res


def _execute(scenario: dict):
    """Runs in the child. Returns an exit code."""
    import io

    from flowmark import cli

    kind = scenario["kind"]
    if kind == "cli":
        old_stdin = sys.stdin
        sys.stdin = io.StringIO(scenario.get("stdin") or "")
        try:
            try:
                return cli.main(list(scenario["argv"]))
            except SystemExit as e:
                return e.code if isinstance(e.code, int) else 2
        finally:
            sys.stdin = old_stdin
    if kind == "api":
        from flowmark.reformat_api import reformat_file

        try:
            reformat_file(scenario["path"], scenario["output"], **scenario.get("kw", {}))
            return 0
        except Exception:  # noqa: BLE001
            return 2
    raise AssertionError(kind)


# ---------------------------------------------------------------------------------------------------

RAISES = "*" * 1000 + "a" + "*" * 1000 + "\n"  # makes the formatter raise RecursionError
UNDECODABLE = b"\xff\xfe\x00bad \xc3\x28 bytes\n"


def _new(text: str, kw: dict) -> str:
    from flowmark import reformat_text

    return reformat_text(text, **kw)


def build(case: dict, root: Path) -> tuple[dict, dict]:
    """Create the files of a scenario under root; returns (scenario for _execute, expectations).
    expectations: {'targets': {relpath: {'old': bytes|None, 'new': bytes|None, 'backup': bool}}, 'untouched': {relpath: bytes}}"""
    name, text = case["scenario"], case["content"]
    kw_cli = {"width": 88, "semantic": False, "cleanups": False, "smartquotes": False, "ellipses": False}
    kw_auto = {"width": 88, "semantic": True, "cleanups": True, "smartquotes": True, "ellipses": True}
    targets: dict = {}
    untouched: dict = {}

    def put(rel: str, data) -> None:
        p = root / rel
        p.parent.mkdir(parents=True, exist_ok=True)
        p.write_bytes(data if isinstance(data, bytes) else data.encode("utf-8"))

    if name in ("inplace", "inplace_nobackup", "auto"):
        put("doc.md", text)
        kw = kw_auto if name == "auto" else kw_cli
        argv = {"inplace": ["--inplace", "doc.md"], "inplace_nobackup": ["--inplace", "--nobackup", "doc.md"], "auto": ["--auto", "doc.md"]}[name]
        targets["doc.md"] = {"old": text.encode(), "new": _new(text, kw).encode(), "backup": name == "inplace"}
        return {"kind": "cli", "argv": argv}, {"targets": targets, "untouched": untouched}
    if name in ("inplace_symlink", "inplace_symlink_nobackup", "stdin_o_symlink"):
        # the target path is a symbolic link to a regular document elsewhere in the tree
        put("real/real.md", text)
        os.symlink("real/real.md", root / "doc.md")
        if name == "stdin_o_symlink":
            new = _new("Other   text from stdin.\n", kw_cli).encode()
            targets["doc.md"] = {"old": text.encode(), "new": new, "backup": False}
            targets["real/real.md"] = {"old": text.encode(), "new": new, "backup": False}
            return {"kind": "cli", "argv": ["-o", "doc.md", "-"], "stdin": "Other   text from stdin.\n"}, {"targets": targets, "untouched": untouched}
        backup = name == "inplace_symlink"
        new = _new(text, kw_cli).encode()
        targets["doc.md"] = {"old": text.encode(), "new": new, "backup": backup}
        targets["real/real.md"] = {"old": text.encode(), "new": new, "backup": False}
        return {"kind": "cli", "argv": ["--inplace"] + ([] if backup else ["--nobackup"]) + ["doc.md"]}, {"targets": targets, "untouched": untouched}
    if name in ("stdin_o_new", "stdin_o_existing", "stdin_o_missingdir"):
        out = {"stdin_o_new": "out.md", "stdin_o_existing": "out.md", "stdin_o_missingdir": "missing/dir/out.md"}[name]
        old = None
        if name == "stdin_o_existing":
            old = b"previous content of the output file\n"
            put(out, old)
        targets[out] = {"old": old, "new": _new(text, kw_cli).encode(), "backup": False}
        return {"kind": "cli", "argv": ["-o", out, "-"], "stdin": text}, {"targets": targets, "untouched": untouched}
    if name in ("api_file_to_new", "api_file_to_existing"):
        put("src.md", text)
        old = None
        if name == "api_file_to_existing":
            old = b"previous content\n"
            put("dest.md", old)
        untouched["src.md"] = text.encode()
        targets["dest.md"] = {"old": old, "new": _new(text, dict(kw_cli, cleanups=True)).encode(), "backup": False}
        return {"kind": "api", "path": "src.md", "output": "dest.md", "kw": {}}, {"targets": targets, "untouched": untouched}
    if name.startswith("three_"):
        second = {"three_fine": text + "\nsecond file paragraph\n", "three_undecodable": UNDECODABLE, "three_raises": RAISES}[name]
        third = "# third\n\n- x\n- y\n\nsome   spaced    text here\n"
        put("a.md", text)
        put("b.md", second)
        put("c.md", third)
        backup = case.get("backup", False)
        argv = ["--inplace"] + ([] if backup else ["--nobackup"]) + ["a.md", "b.md", "c.md"]
        targets["a.md"] = {"old": text.encode(), "new": _new(text, kw_cli).encode(), "backup": backup}
        if name == "three_fine":
            targets["b.md"] = {"old": second.encode(), "new": _new(second, kw_cli).encode(), "backup": backup}
        else:
            sb = second if isinstance(second, bytes) else second.encode()
            targets["b.md"] = {"old": sb, "new": sb, "backup": backup, "must_stay": True}
        targets["c.md"] = {"old": third.encode(), "new": _new(third, kw_cli).encode(), "backup": backup}
        return {"kind": "cli", "argv": argv}, {"targets": targets, "untouched": untouched}
    raise AssertionError(name)


def inspect(root: Path, exp: dict, what: str) -> tuple[str, str] | None:
    for rel, t in exp["targets"].items():
        p = root / rel
        orig = root / (rel + ".orig")
        cur = p.read_bytes() if p.is_file() else None
        bak = orig.read_bytes() if orig.is_file() else None
        ok = cur == t["new"] or cur == t["old"]
        if cur is None and t["old"] is not None:
            ok = bool(t["backup"]) and bak == t["old"]
        if not ok:
            return "target-damaged", f"{what}: {rel} holds {_short(cur)}; old={_short(t['old'])} new={_short(t['new'])}; {rel}.orig={_short(bak)}"
        if t.get("must_stay") and cur != t["old"]:
            return "modified-although-processing-failed", f"{what}: {rel} (unreadable/unformattable) was modified: {_short(cur)}"
        if t["backup"] and cur == t["new"] and t["old"] != t["new"] and bak != t["old"]:
            return "backup-missing", f"{what}: {rel} holds the new content but {rel}.orig is {_short(bak)} instead of the old content"
    for rel, data in exp["untouched"].items():
        p = root / rel
        if not p.is_file() or p.read_bytes() != data:
            return "input-touched", f"{what}: input file {rel} was modified or removed"
    return None


def _short(b) -> str:
    if b is None:
        return "<absent>"
    r = repr(b[:60])
    return f"{len(b)} bytes {r}{'…' if len(b) > 60 else ''}"


def check_case(case: dict, note: Note) -> Failure | None:
    root = Path(tempfile.mkdtemp(prefix="vf_c14_")).resolve()
    try:
        scenario, exp = build(case, root)
        fault = case.get("fault")
        res = _run_child(root, scenario, fault)
        what = f"scenario={case['scenario']} fault={fault} trace={res.get('trace')} rc={res.get('rc')} status={res.get('status')}"
        changed = any(t["old"] != t["new"] for t in exp["targets"].values())
        note.nontrivial = bool(fault) and changed and _after_first_write(res.get("trace"), fault)
        note.label("fault_" + (fault["kind"] if fault else "none"))
        note.label("scenario_" + case["scenario"])
        stray = [p.name for p in root.rglob("*.partial")]
        if stray:
            note.label("stray_partial_file_left")
        bad = inspect(root, exp, what)
        if bad:
            return Failure(bad[0], bad[1] + f"\ncontent={case['content'][:200]!r}")
        if fault is None:
            # fault-free run: every target must hold the new content, exit code 0 unless a file cannot be processed
            for rel, t in exp["targets"].items():
                if t.get("must_stay"):
                    if res["rc"] in (0, None):
                        return Failure("error-not-reported", f"{what}: exit code {res['rc']} although {rel} could not be processed")
            if not any(t.get("must_stay") for t in exp["targets"].values()):
                for rel, t in exp["targets"].items():
                    if rel.startswith("real/"):
                        continue
                    if (root / rel).read_bytes() != t["new"]:
                        return Failure("fault-free-run-wrong", f"{what}: {rel} does not hold the formatted content after a fault-free run")
                if res["rc"] != 0:
                    return Failure("fault-free-run-wrong", f"{what}: exit code {res['rc']}")
        elif fault["kind"] in ("error", "fsize-error") and res.get("rc") == 0 and res.get("n") is not None:
            # an injected failure that the program reports as success, with a target left at its old content
            hit = (fault["kind"] == "error" and res["n"] >= fault["k"]) or fault["kind"] == "fsize-error"
            stale = [rel for rel, t in exp["targets"].items() if not rel.startswith("real/") and t["old"] != t["new"] and (root / rel).is_file() and (root / rel).read_bytes() == t["old"]]
            if hit and stale and fault["kind"] == "error":
                return Failure("failure-reported-as-success", f"{what}: exit code 0 but {stale} still hold the old content")
        return None
    finally:
        shutil.rmtree(root, ignore_errors=True)


def _after_first_write(trace, fault) -> bool:
    if not trace:
        return True
    firstw = next((i for i, t in enumerate(trace) if t.startswith("open-w")), None)
    if fault["kind"] in ("error", "crash"):
        return firstw is not None and fault["k"] - 1 >= firstw
    return True


SCENARIOS = ["inplace", "inplace_nobackup", "auto", "stdin_o_new", "stdin_o_existing", "stdin_o_missingdir", "api_file_to_new", "api_file_to_existing",
             "three_fine", "three_undecodable", "three_raises", "inplace_symlink", "inplace_symlink_nobackup", "stdin_o_symlink"]
FIXED_CONTENTS = [
    "Hello   world.  This is   a test.\n\n- a\n\n- b\n",
    "# **Title**\n\n" + "A \"quoted\" sentence that isn't short... and more words follow here to make it long. " * 12 + "\n\n1. one\n2. two\n",
]


def _plan(ctx: Ctx, contents: list[str]):
    """All (scenario, content, fault) cases of this shard: fault-free first (to learn the trace), then every fault point."""
    idx = 0
    for ci, content in enumerate(contents):
        for sc in SCENARIOS:
            for backup in ((False, True) if sc.startswith("three_") else (False,)):
                idx += 1
                if idx % ctx.nshards != ctx.shard:
                    continue
                base = {"scenario": sc, "content": content, "backup": backup}
                root = Path(tempfile.mkdtemp(prefix="vf_c14p_")).resolve()
                try:
                    scenario, exp = build(base, root)
                    res = _run_child(root, scenario, None)
                finally:
                    shutil.rmtree(root, ignore_errors=True)
                if res.get("n") is None:
                    raise HarnessError(f"fault-free run of {sc} did not report a trace: {res}")
                yield dict(base, fault=None)
                for k in range(1, res["n"] + 2):
                    for kind in ("error", "crash"):
                        yield dict(base, fault={"kind": kind, "k": k})
                sizes = sorted({len(t["new"]) for t in exp["targets"].values() if t["new"]})
                limits = sorted({0, 1} | {s // 2 for s in sizes} | {max(s - 1, 0) for s in sizes})
                for lim in limits:
                    for kind in ("fsize-crash", "fsize-error"):
                        yield dict(base, fault={"kind": kind, "limit": lim})


@st.composite
def _content(draw):
    return draw(textgen.doc(textgen.BASIC | {"quotes", "dots"}, depth=1, hi=4))


def shard_work(ctx: Ctx) -> None:
    contents = list(FIXED_CONTENTS)
    n_extra = 3 if ctx.quick else 12
    if n_extra:
        import hypothesis
        from hypothesis import HealthCheck, Phase, given, settings

        extra: list[str] = []

        @hypothesis.seed(ctx.seed * 7 + 3)
        @settings(max_examples=n_extra + 6, database=None, deadline=None, phases=[Phase.generate], suppress_health_check=list(HealthCheck))
        @given(_content())
        def collect(t: str) -> None:
            if t.strip() and len(extra) < n_extra:
                extra.append(t)

        collect()
        contents += extra
    ctx.run_cases("fault_points", _plan(ctx, contents), exhaustive=True)


EXHAUSTIVE_IF = {"quick": ["fault_points"], "thorough": ["fault_points"]}
SHRINK_FROZEN = ("fault", "scenario", "backup")
