"""C08 — smart quotes only swap individual quote characters, and only in prose."""

from __future__ import annotations

import itertools

from hypothesis import strategies as st

from vf import literals, opts, textgen
from vf.core import Ctx, Failure, Note

ID = "C08"
LEVEL = "exploration"
TECHNIQUE = "bounded-exhaustive strings over a 13-symbol alphabet for smart_quotes() + Hypothesis documents; per-position differential against the option-off output"
RULE = (
    "exhaustive core: every string of length <= L over {' \" a s SPACE . NEWLINE - { % } ’ “} through typography.smart_quotes (L=5 quick, "
    "6 thorough); documents: Hypothesis-generated Markdown rich in quotes next to code spans/emphasis/links/tags/escapes x all other "
    "options, f(x, smartquotes=on) compared position by position with f(x, smartquotes=off); paragraph pairs for pairing locality. "
    "Non-trivial = at least one position changed, or a straight quote inside a protected span (code, tag, HTML, destination, escaped); "
    "distinct by SHA-1 of the case."
)
LEVEL_TEXT = (
    "Exhaustive over all short strings of the rewrite's decision alphabet (every interleaving of quotes, letters, spaces, punctuation, "
    "newlines and tag delimiters up to length 5/6) and generated-input exploration at document level with a per-position differential "
    "oracle that needs no expected strings. Held on everything explored."
)
LEVEL_NOTE = "Protected spans in outputs are located by flowmark's own parser for code/HTML/links (the property's 'reading') and by the harness's own tag scanner for template tags/comments."
ASSUMPTIONS = [
    "a template tag or HTML comment does not span a blank line (the rewrite works per paragraph, heading or table cell)",
    "document bodies come from the shared text generator (vf/textgen.py) with the quotes feature on",
]
BUDGET = {"quick": 70, "thorough": 1500}

ALPHA = ["'", '"', "a", "s", " ", ".", "\n", "-", "{", "%", "}", "’", "“"]
SINGLE = "‘’"
DOUBLE = "“”"


def _pos_rule(a: str, b: str) -> str | None:
    if len(a) != len(b):
        return f"length changed {len(a)} -> {len(b)}"
    for i, (x, y) in enumerate(zip(a, b)):
        if x != y:
            if x == "'" and y in SINGLE:
                continue
            if x == '"' and y in DOUBLE:
                continue
            return f"position {i}: {x!r} became {y!r} (context {a[max(0, i - 15):i + 15]!r} -> {b[max(0, i - 15):i + 15]!r})"
    return None


def _show(s: str, n: int = 600) -> str:
    r = repr(s)
    return r if len(r) <= n else r[:n] + "…"


def check_case(case: dict, note: Note) -> Failure | None:
    from flowmark.typography.smartquotes import smart_quotes

    kind = case["kind"]
    if kind == "str":
        s = case["s"]
        r = smart_quotes(s)
        note.nontrivial = r != s or any(("'" in s[a:b] or '"' in s[a:b]) for a, b in literals.tag_spans(s))
        why = _pos_rule(s, r)
        if why:
            return Failure("string-rewrite-not-quote-swap", f"smart_quotes({s!r}) = {r!r}: {why}")
        for a, b in literals.tag_spans(s):
            if r[a:b] != s[a:b]:
                return Failure("string-tag-touched", f"smart_quotes({s!r}) = {r!r}: tag {s[a:b]!r} changed")
        return None

    if kind == "doc":
        from flowmark.formats.flowmark_markdown import flowmark_markdown

        x, o = case["text"], dict(case["opts"])
        o.pop("smartquotes", None)
        a = opts.fmt(x, dict(o, smartquotes=False))
        b = opts.fmt(x, dict(o, smartquotes=True))
        changed = a != b
        why = _pos_rule(a, b)
        if why:
            return Failure("doc-not-quote-swap", f"input={_show(x)}\nopts={o}\noff={_show(a)}\non ={_show(b)}\n{why}")
        la = literals.tree_literals(flowmark_markdown().parse(a))
        protected_quote = any(("'" in str(v) or '"' in str(v)) for rec in la for v in rec[1:])
        if changed:
            # Only meaningful if the option-off output reads back with the input's literal spans (otherwise the
            # case is a C01/C04 matter: the output is mis-read, e.g. prose turned into a code block).
            from vf import canon

            l_in = literals.tree_literals(canon.parse(x)[1])
            if l_in != la:
                note.label("skipped_protected_check_output_misread")
            else:
                lb = literals.tree_literals(flowmark_markdown().parse(b))
                if la != lb:
                    d = next((p for p in zip(la, lb) if p[0] != p[1]), (la[len(lb):] or lb[len(la):]))
                    return Failure("doc-protected-span-changed", f"input={_show(x)}\nopts={o}\nfirst differing literal: {d!r}\noff={_show(a)}\non ={_show(b)}")
        for s, e in literals.tag_spans(a):
            if "'" in a[s:e] or '"' in a[s:e]:
                protected_quote = True
            if a[s:e] != b[s:e]:
                return Failure("doc-tag-touched", f"input={_show(x)}\nopts={o}\ntag {a[s:e]!r} became {b[s:e]!r}")
        i = 0
        while i < len(a) - 1:
            if a[i] == "\\":
                if a[i + 1] in "'\"":
                    protected_quote = True
                    if b[i + 1] != a[i + 1]:
                        return Failure("doc-escaped-quote-touched", f"input={_show(x)}\nopts={o}\nescaped quote at {i + 1}: {a[i - 10:i + 10]!r} -> {b[i - 10:i + 10]!r}")
                i += 2
            else:
                i += 1
        note.nontrivial = changed or protected_quote
        if changed:
            note.label("some_quote_converted")
        if protected_quote:
            note.label("quote_in_protected_span")
        if o.get("ellipses"):
            note.label("ellipses_on")
        return None

    if kind == "para2":
        from flowmark.formats.flowmark_markdown import flowmark_markdown
        from marko import block

        p1, p2, o = case["p1"], case["p2"], dict(case["opts"], smartquotes=True)

        def single_para(p: str) -> bool:
            ch = [c for c in flowmark_markdown().parse(p + "\n").children if not isinstance(c, block.BlankLine)]
            return len(ch) == 1 and type(ch[0]) is block.Paragraph

        if not (single_para(p1) and single_para(p2)):
            note.label("discarded_not_single_paragraph")
            return None
        both = opts.fmt(p1 + "\n\n" + p2 + "\n", o)
        sep = opts.fmt(p1 + "\n", o) + "\n" + opts.fmt(p2 + "\n", o)
        note.nontrivial = ('"' in p1 + p2 or "'" in p1 + p2) and both != opts.fmt(p1 + "\n\n" + p2 + "\n", dict(o, smartquotes=False))
        if both != sep:
            return Failure("pairing-crosses-paragraph", f"p1={_show(p1)}\np2={_show(p2)}\nopts={o}\ntogether={_show(both)}\nseparately={_show(sep)}")
        return None
    raise AssertionError(kind)


def _sweep(ctx: Ctx, L: int):
    idx = 0
    for n in range(0, L + 1):
        for tup in itertools.product(ALPHA, repeat=n):
            idx += 1
            if idx % ctx.nshards != ctx.shard:
                continue
            yield {"kind": "str", "s": "".join(tup)}


TAGS_Q = ['{% "a" %}', "{% 'a' %}", "{# it's #}", '{# "q" #}', "{{ 'a' }}", '{{ "a b" }}', '<!-- "a" -->', "<!-- it's -->", "<!-- 'a' \"b\" -->",
          '{% a "b"\n"c" %}', "{%'a'%}", '{{"a"}}',
          # bodies that contain their own delimiter character
          '{% if n % 2 == "odd" %}', "{{ t(\"it's\", {}) }}", "{%%a's%}", "{# it's #1 #}", '{{ {"k": "v"} }}', "<!-- a - \"b\" -- c's -->"]
PRE = ["", "x ", '"', "'", "it's ", '"q" ', "\n", "s' "]
SUF = ["", " y", '"', "'s", " 'z'", ' "w".', "\n", "."]


def _tag_family(ctx: Ctx):
    idx = 0
    for pre in PRE:
        for t1 in TAGS_Q:
            for mid in ["", " ", " and ", '" "']:
                for t2 in [""] + TAGS_Q[:4]:
                    for suf in SUF:
                        idx += 1
                        if idx % ctx.nshards != ctx.shard:
                            continue
                        yield {"kind": "str", "s": pre + t1 + (mid + t2 if t2 else "") + suf}


FEAT = (textgen.ALL | {"quotes"}) - {"tagline"}


@st.composite
def _doc_case(draw):
    feat = draw(st.sampled_from([FEAT, FEAT, frozenset({"quotes", "code", "emph", "link", "tags", "escape", "html", "hardbreak", "list", "quote", "table", "atx"})]))
    text = draw(textgen.doc(feat, depth=2, hi=4))
    return {"kind": "doc", "text": text, "opts": draw(opts.md_options())}


@st.composite
def _para2_case(draw):
    feat = frozenset({"quotes", "code", "emph", "link", "tags", "escape"})
    from vf.layout import realize

    p1 = realize("\n".join(draw(textgen.para_lines(feat, 1, 12))), draw(st.integers(0, 1000)))
    p2 = realize("\n".join(draw(textgen.para_lines(feat, 1, 12))), draw(st.integers(0, 1000)))
    return {"kind": "para2", "p1": p1, "p2": p2, "opts": draw(opts.md_options())}


def shard_work(ctx: Ctx) -> None:
    ctx.run_cases("sweep_smart_quotes", _sweep(ctx, 5 if ctx.quick else 6), exhaustive=True)
    ctx.run_cases("tag_family_smart_quotes", _tag_family(ctx), exhaustive=True)
    ctx.run_hypothesis("documents", _doc_case(), ctx.n(5000, 160000))
    ctx.run_hypothesis("paragraph_pairs", _para2_case(), ctx.n(2500, 60000))


EXHAUSTIVE_IF = {"quick": ["sweep_smart_quotes"], "thorough": ["sweep_smart_quotes"]}
