"""C05 — wrapping is lossless, width-bounded and maximal.

Validity predicates over the result of the public wrapping functions (ground-truth tokens come from the
generator, never from flowmark's own tokenizer):

  L  lossless     : the tokens of the output, in order, are the input tokens; a line-leading token of a
                    continuation line may carry ONE backslash if the token is a Markdown marker (Markdown mode)
  I  indent       : line 0 starts with the initial indent, every other line with the subsequent indent
  W  width-bound  : col(i) + len(body_i) <= width unless body_i is a single (unbreakable) token
  M  maximal      : fill mode only: col(i) + len(body_i) + 1 + len(first token of line i+1) > width
  Z  width <= 0   : exactly one line per paragraph / hard-break segment
"""

from __future__ import annotations

import itertools
import re

from hypothesis import strategies as st

from vf.core import Ctx, Failure, Note

ID = "C05"
LEVEL = "exploration"
TECHNIQUE = "bounded-exhaustive enumeration of (word lengths x width x columns) + Hypothesis random tokens/atoms; validity predicates (lossless, indent, width bound, maximality)"
RULE = (
    "exhaustive core: all word-length vectors over {1,2,3,5,9} with 0..N words x width in {-1,0,1..12} x initial column 0..4 x "
    "subsequent offset 0..3 x {simple, HTML/Markdown splitter + Markdown escaping} for wrap_paragraph_lines; random: Hypothesis token "
    "lists (words, Markdown hazard words, atomic constructs with inner spaces) x width 1..120 x indent pairs for wrap_paragraph, "
    "fill_text (every Wrap member), line_wrap_to_width, line_wrap_by_sentence, reformat_text(plaintext). "
    "Non-trivial = >=2 output lines, or a token wider than the available width, or width<=0 with >=2 source lines; distinct by SHA-1 of the case."
)
LEVEL_TEXT = (
    "Bounded-exhaustive for the greedy fill core (every small word-length vector x width x column x offset: the (lengths, width, indent) "
    "coincidences where off-by-one errors live are all enumerated up to the bound) plus random generated-input exploration of the public "
    "wrappers with atoms and indents. Decides by validity predicates, not expected strings. Beyond the bounds: sampled, not proved."
)
LEVEL_NOTE = "Token ground truth is the generator's; trusts Python's str operations. Known findings listed in KNOWN_FINDINGS.txt are excluded by construction and pinned."
ASSUMPTIONS = [
    "initial_column > 0 is only combined with an empty initial indent (tests pin that the indent is then counted but not emitted)",
    "two template tags are never direct neighbours in C05 token lists (tag adjacency is C06's subject)",
    "atoms are taken from the constructs the code documents as atomic (code spans, links, tags, comments, HTML tags)",
]
BUDGET = {"quick": 60, "thorough": 1200}

# words that may carry a protecting backslash at a line start: list/quote/heading markers, rule and underline characters
# (also as the first of several: `** *`), fences, table delimiter cells (`-|`, `:-:`, and `|` or `-x` before/under one)
MARKER_RE = re.compile(r"^([-*+]|>.*|#+|[0-9]+[.)]|-{2,}|=+|\*{2,}|_+|`{3,}[^`]*|~{3,}.*|[|:\-]*-[|:\-]*|\||:?-.*)$")
# ... and on the first line of a paragraph (a line that would be a thematic break, alone or with more of the same)
RULE_RE = re.compile(r"^(-+|\*+|_+)$")
LENS = (1, 2, 3, 5, 9)
HAZ = ["-", "+", "*", ">", "#", "##", "1.", "2)", "10.", "---", "***", "===", "```", "~~~", "|", "[x]", "+1", "#tag", "1.x", "-x"]
PLAINW = ["a", "it", "the", "alpha", "Gamma,", "word.", "longerword", "Supercalifragilistic", "42", "3.14", "e.g.", "naïve", "中文", "x=y", "(p)", "end.", "done!"]
ATOMS = ["`a b c`", "`x`", "[link text](http://example.com/a)", "[a b][ref]", "![img alt](u)", "{% tag x=1 %}", "{{ var | f }}", "{# c d #}",
         "<!-- c d -->", '<span class="a b">', "</span>", "<br/>", "``a ` b``"]
TAGLIKE = ("{%", "{{", "{#", "<!--")
INDENTS = [("", ""), ("- ", "  "), ("> ", "> "), ("1. ", "   "), ("[^a]: ", "    "), ("> - ", ">   "), ("", "    "), (">", ">>")]


def _istag(t: str) -> bool:
    return t.startswith(TAGLIKE)


# ---------------------------------------------------------------------------------------------------
# The predicates


def scan_lines(bodies: list[str], tokens: list[str], markdown: bool, starts_line: bool = False) -> tuple[list[list[tuple[str, str]]] | None, str]:
    """Match output line bodies against the expected token sequence.
    Returns per line a list of (emitted, original) tokens, or (None, reason)."""
    k = 0
    out: list[list[tuple[str, str]]] = []
    for i, body in enumerate(bodies):
        pos = 0
        row: list[tuple[str, str]] = []
        if body == "":
            return None, f"line {i} is empty"
        while pos < len(body):
            if k >= len(tokens):
                return None, f"extra text {body[pos:]!r} on line {i}"
            t = tokens[k]
            if body.startswith(t, pos):
                em = t
            else:
                esc = None
                if markdown and pos == 0 and MARKER_RE.match(t) and (i > 0 or starts_line or RULE_RE.match(t)):
                    # backslash protection of a line-leading marker: before the word, before its final . or ),
                    # before every character of a rule/underline word, or before every character of a fence run
                    run = len(t) - len(t.lstrip(t[0])) if t[0] in "`~" else 0
                    cands = ["\\" + t, t[:-1] + "\\" + t[-1], "".join("\\" + c for c in t), "".join("\\" + c for c in t[:run]) + t[run:]]
                    esc = next((c for c in cands if body.startswith(c, pos)), None)
                if esc is None:
                    return None, f"line {i} col {pos}: expected token {t!r}, found {body[pos:pos + len(t) + 4]!r}"
                em = esc
            pos += len(em)
            row.append((em, t))
            k += 1
            if pos < len(body):
                if body[pos] not in " \t":
                    return None, f"line {i} col {pos}: expected whitespace after {em!r}, found {body[pos]!r}"
                while pos < len(body) and body[pos] in " \t":
                    pos += 1
                if pos >= len(body):
                    return None, f"line {i} has trailing whitespace"
        out.append(row)
    if k != len(tokens):
        return None, f"tokens dropped: {tokens[k:k + 5]!r}…"
    return out, ""


def check_wrapped(lines: list[str], tokens: list[str], width: int, ii: str, si: str, col0_extra: int, markdown: bool,
                  maximal: bool, what: str, rest_extra: int = 0, starts_line: bool = False) -> Failure | None:
    """lines: output lines with indents. col0_extra / rest_extra: extra column offsets that are counted but not
    emitted (text already on the first line; subsequent_offset of wrap_paragraph_lines)."""
    _domain_tokens(tokens)
    if not tokens:
        # (an empty hard-break segment is its indent / container prefix alone)
        if [l for l in lines if l.strip() and l != ii]:
            return Failure("lossless", f"{what}: no tokens in, output {lines!r}")
        return None
    bodies = []
    for i, ln in enumerate(lines):
        ind = ii if i == 0 else si
        if not ln.startswith(ind):
            return Failure("indent", f"{what}: line {i} {ln!r} lacks indent {ind!r}; all lines {lines!r}")
        bodies.append(ln[len(ind):])
    rows, why = scan_lines(bodies, tokens, markdown, starts_line)
    if rows is None:
        return Failure("lossless", f"{what}: {why}; tokens={tokens!r} lines={lines!r}")
    if width <= 0:
        if len(lines) != 1:
            return Failure("width0-not-one-line", f"{what}: width={width} gave {len(lines)} lines: {lines!r}")
        return None
    for i, row in enumerate(rows):
        col = (len(ii) + col0_extra) if i == 0 else (len(si) + rest_extra)
        ln_len = col + len(bodies[i])
        if ln_len > width and len(row) > 1:
            return Failure("too-wide", f"{what}: line {i} ends at column {ln_len} > width {width} and has {len(row)} tokens: {lines!r} (col0_extra={col0_extra})",
                           {"body_len": len(bodies[i]), "col": col, "width": width, "line": i})
        if maximal and i + 1 < len(rows):
            nxt = rows[i + 1][0][1]
            if ln_len + 1 + len(nxt) <= width:
                return Failure("not-maximal", f"{what}: line {i} ends at column {ln_len}, next token {nxt!r} would fit in width {width}: {lines!r} (col0_extra={col0_extra})")
    return None


# ---------------------------------------------------------------------------------------------------
# check_case


def _tok_text(tokens: list[str], seps: list[str] | None = None) -> str:
    if not seps:
        return " ".join(tokens)
    return "".join(t + (seps[i] if i < len(tokens) - 1 else "") for i, t in enumerate(tokens))


def check_case(case: dict, note: Note) -> Failure | None:
    from flowmark import Wrap, fill_text, line_wrap_by_sentence, line_wrap_to_width, reformat_text, wrap_paragraph
    from flowmark.linewrapping.text_wrapping import get_html_md_word_splitter, simple_word_splitter, wrap_paragraph_lines

    kind = case["kind"]
    width = case["width"]

    def nontriv(lines: list[str], tokens: list[str], avail: int, nsrc: int = 1) -> None:
        note.nontrivial = len(lines) >= 2 or any(len(t) > avail for t in tokens) or (width <= 0 and nsrc >= 2)
        if len(lines) >= 2:
            note.label("wrapped")
        if any(len(t) > avail for t in tokens):
            note.label("overlong_token")
        if width <= 0:
            note.label("width_le_0")

    if kind == "wpl":
        tokens = case["tokens"]
        ic, so, md = case["ic"], case["so"], case["md"]
        _domain_first_word(tokens, width, ic, so)
        text = _tok_text(tokens, case.get("seps"))
        lines = wrap_paragraph_lines(text, width, initial_column=ic, subsequent_offset=so,
                                     splitter=None if md else simple_word_splitter, is_markdown=md)
        nontriv(lines, tokens, width - max(ic, so))
        if md:
            note.label("markdown_mode")
        return check_wrapped(lines, tokens, width, "", "", ic, md, True, f"wrap_paragraph_lines(w={width},ic={ic},so={so},md={md})", rest_extra=so)

    if kind == "wp":
        tokens, ii, si, ic, md = case["tokens"], case["ii"], case["si"], case.get("ic", 0), case["md"]
        assert not (ic > 0 and ii), "domain: initial_column only with empty initial indent"
        _domain_first_word(tokens, width, len(ii) + ic, len(si))
        _domain_no_adjacent_tags(tokens)
        text = _tok_text(tokens, case.get("seps"))
        res = wrap_paragraph(text, width, initial_indent=ii, subsequent_indent=si, initial_column=ic, is_markdown=md)
        lines = res.split("\n") if res else []
        nontriv(lines, tokens, width - max(len(ii) + ic, len(si)))
        return check_wrapped(lines, tokens, width, ii, si, ic, md, True, f"wrap_paragraph(w={width},ii={ii!r},si={si!r},ic={ic},md={md})")

    if kind in ("lw", "ls"):
        # segments = hard-break separated token lists
        segs, ii, si = case["segs"], case["ii"], case["si"]
        hb = case.get("hb", "\\\n")
        for s in segs:
            _domain_no_adjacent_tags(s)
        for j, s in enumerate(segs):
            _domain_first_word(s, width, len(ii if j == 0 else si), len(si))
        text = hb.join(_tok_text(s, None) for s in segs)
        mk = line_wrap_to_width if kind == "lw" else line_wrap_by_sentence
        res = mk(width=width, is_markdown=True)(text, ii, si)
        out_segs = res.split("\\\n")
        alltok = [t for s in segs for t in s]
        nontriv(res.split("\n"), alltok, width - max(len(ii), len(si)), len(segs))
        if len(segs) > 1:
            note.label("hard_breaks")
        if len(out_segs) != len(segs):
            return Failure("hard-break-segments", f"{kind}: {len(segs)} hard-break segments in, {len(out_segs)} out: in={text!r} out={res!r}")
        for j, (s, o) in enumerate(zip(segs, out_segs)):
            lines = o.split("\n")
            # the first word after a hard break starts a line: it may carry a protecting backslash like any wrapped line start
            f = check_wrapped(lines, s, width, ii if j == 0 else si, si, 0, True, kind == "lw",
                              f"{'line_wrap_to_width' if kind == 'lw' else 'line_wrap_by_sentence'}(w={width}) segment {j} of {text!r}", starts_line=j > 0)
            if f:
                return f
        return None

    if kind == "fill":
        paras, mode, extra = case["paras"], Wrap[case["mode"]], case.get("extra", "")
        simple = case.get("simple", False)
        for p in paras:
            _domain_no_adjacent_tags(p)
        gap = case.get("gap", "\n\n")
        text = gap.join(" ".join(p) for p in paras)
        res = fill_text(text, mode, width=width, extra_indent=extra, word_splitter=simple_word_splitter if simple else None)
        ii0 = extra + mode.initial_indent
        si = extra + mode.subsequent_indent
        out_paras = res.split("\n\n") if paras else []
        note.label("Wrap." + mode.name)
        nontriv(res.split("\n"), [t for p in paras for t in p], width - max(len(ii0), len(si)), len(paras))
        if len(out_paras) != len(paras):
            return Failure("paragraphs", f"fill_text({mode}): {len(paras)} paragraphs in, {len(out_paras)} out: {res!r}")
        for j, (p, o) in enumerate(zip(paras, out_paras)):
            ii = si if (mode.initial_indent_first_para_only and j > 0) else ii0
            _domain_first_word(p, width, len(ii), len(si))
            f = check_wrapped(o.split("\n"), p, width, ii, si, 0, False, True, f"fill_text({mode.name}, w={width}, extra={extra!r}) para {j}")
            if f:
                return f
        return None

    if kind == "plaintext":
        paras = case["paras"]
        for p in paras:
            _domain_no_adjacent_tags(p)
        inner = case.get("inner", " ")  # how tokens are separated inside a paragraph in the source
        text = case.get("gap", "\n\n").join(inner.join(p) for p in paras)
        res = reformat_text(text, width=width, plaintext=True)
        out_paras = res.split("\n\n")
        nontriv(res.split("\n"), [t for p in paras for t in p], width, len(paras) + (1 if "\n" in inner else 0))
        if len(out_paras) != len(paras):
            return Failure("paragraphs", f"plaintext: {len(paras)} paragraphs in, {len(out_paras)} out: {res!r}")
        for j, (p, o) in enumerate(zip(paras, out_paras)):
            f = check_wrapped(o.split("\n"), p, width, "", "", 0, False, True, f"reformat_text(plaintext, w={width}) para {j} of {text!r}")
            if f:
                return f
        return None

    raise AssertionError(f"unknown kind {kind}")


_POOL = None
_WORD_RE = re.compile(r"^[a-z]+$")


def _domain_tokens(tokens: list[str]) -> None:
    """Token boundaries are ground truth only for tokens from the fixed pools (or plain lower-case words); a bare
    backtick run may not share a paragraph with another backtick token (together they would be one code span)."""
    global _POOL
    if _POOL is None:
        _POOL = set(PLAINW) | set(HAZ) | set(ATOMS)
    ticks = [t for t in tokens if "`" in t]
    for t in tokens:
        assert t in _POOL or _WORD_RE.match(t), f"domain: token {t!r}"
    assert not (len(ticks) > 1 and any(t not in ATOMS for t in ticks)), "domain: bare backticks next to a code span"


def _domain_first_word(tokens: list[str], width: int, col0: int, col_rest: int) -> None:
    """Known finding first-word-overflow is excluded by construction unless the case says otherwise."""
    return None


def _domain_no_adjacent_tags(tokens: list[str]) -> None:
    for a, b in zip(tokens, tokens[1:]):
        assert not (_istag(a) and _istag(b)), "domain: adjacent tags belong to C06"


# ---------------------------------------------------------------------------------------------------
# Known-finding signatures


def _sig_first_word_overflow(case: dict, f: Failure) -> bool:
    """First token does not fit at the initial column, which is larger than the subsequent offset."""
    if f.bucket not in ("too-wide", "not-maximal"):
        return False
    if case["kind"] == "wpl":
        toks, c0, cr = case["tokens"], case["ic"], case["so"]
    elif case["kind"] == "wp":
        toks, c0, cr = case["tokens"], len(case["ii"]) + case.get("ic", 0), len(case["si"])
    else:
        return False
    if not toks or c0 <= cr:
        return False
    first = len(toks[0])
    if case.get("md") and RULE_RE.match(toks[0]):
        first *= 2  # a rule-like first word is re-laid out with a backslash before every character when it would stand alone
    return c0 + first > case["width"]


def _sig_sentence_merge_indent(case: dict, f: Failure) -> bool:
    """Semantic wrapper only: the overlong line would fit if its indent were not counted (the short-line merge test
    of line_wrap_by_sentence compares the un-indented length with the width)."""
    return (
        case["kind"] == "ls"
        and f.bucket == "too-wide"
        and f.data.get("col", 0) > 0
        and f.data.get("body_len", 10**9) <= case["width"]
    )


SIGS = {"first_word_overflow": _sig_first_word_overflow, "sentence_merge_indent": _sig_sentence_merge_indent}


# ---------------------------------------------------------------------------------------------------
# Generators


def _sweep(ctx: Ctx, maxwords: int):
    combos = []
    for n in range(0, maxwords + 1):
        combos.append(itertools.product(LENS, repeat=n))
    idx = 0
    for vec in itertools.chain(*combos):
        idx += 1
        if idx % ctx.nshards != ctx.shard:
            continue
        tokens = ["abcdefghi"[:l] for l in vec]
        for width in (-1, 0, 1, 2, 3, 4, 5, 6, 7, 8, 9, 10, 11, 12):
            for ic in range(0, 5):
                for so in range(0, 4):
                    for md in (False, True):
                        if "first_word_overflow" in ctx.disabled and tokens and ic > so and ic + len(tokens[0]) > width > 0:
                            ctx.res.counters["excluded:first_word_overflow"] += 1
                            continue
                        yield {"kind": "wpl", "tokens": tokens, "width": width, "ic": ic, "so": so, "md": md}


def _token(md: bool):
    pools = [st.sampled_from(PLAINW), st.sampled_from(PLAINW), st.text(alphabet="abcxyz", min_size=1, max_size=14)]
    if md:
        pools += [st.sampled_from(HAZ), st.sampled_from(ATOMS)]
    return st.one_of(pools)


@st.composite
def _tokens(draw, md: bool, lo: int = 0, hi: int = 40):
    toks = draw(st.lists(_token(md), min_size=lo, max_size=hi))
    ticks = [t for t in toks if "`" in t]
    if len(ticks) > 1 and any(t not in ATOMS for t in ticks):
        toks = [t for t in toks if "`" not in t or t in ATOMS]
    out: list[str] = []
    for t in toks:
        if out and _istag(out[-1]) and _istag(t):
            out.append("and")
        out.append(t)
    while len(out) < lo:
        out.append("pad")
    return out


def _width():
    return st.one_of(st.integers(1, 16), st.integers(1, 16), st.integers(17, 60), st.integers(61, 120), st.sampled_from([0, -1, 88, 80]))


@st.composite
def _random_case(draw, disabled: frozenset):
    kind = draw(st.sampled_from(["wpl", "wp", "wp", "lw", "lw", "ls", "fill", "fill", "plaintext"]))
    width = draw(_width())
    if kind == "wpl":
        md = draw(st.booleans())
        case = {"kind": kind, "tokens": draw(_tokens(md)), "width": width, "ic": draw(st.integers(0, 12)), "so": draw(st.integers(0, 8)), "md": md}
    elif kind == "wp":
        md = draw(st.booleans())
        ii, si = draw(st.sampled_from(INDENTS))
        ic = draw(st.sampled_from([0, 0, 0, 3, 7, 35]))
        if ic:
            ii = ""
        case = {"kind": kind, "tokens": draw(_tokens(md)), "width": width, "ii": ii, "si": si, "ic": ic, "md": md}
    elif kind in ("lw", "ls"):
        ii, si = draw(st.sampled_from(INDENTS[:6]))
        nseg = draw(st.sampled_from([1, 1, 1, 2, 3]))
        segs = [draw(_tokens(True, 1, 25)) for _ in range(nseg)]
        # a segment's last token must not end in a backslash and tokens next to a break must not be tags
        segs = [[t for t in s] for s in segs]
        for s in segs:
            if _istag(s[0]):
                s.insert(0, "x")
            if _istag(s[-1]):
                s.append("y")
        case = {"kind": kind, "segs": segs, "width": width, "ii": ii, "si": si, "hb": draw(st.sampled_from(["\\\n", "  \n"]))}
    elif kind == "fill":
        mode = draw(st.sampled_from(["WRAP", "WRAP_FULL", "WRAP_INDENT", "HANGING_INDENT", "MARKDOWN_ITEM"]))
        simple = draw(st.booleans())
        paras = [draw(_tokens(not simple, 1, 25)) for _ in range(draw(st.integers(1, 3)))]
        case = {"kind": kind, "paras": paras, "width": width if width > 0 else 30, "mode": mode, "extra": draw(st.sampled_from(["", "", "  ", "> "])), "simple": simple}
        width = case["width"]
    else:
        paras = [draw(_tokens(True, 1, 25)) for _ in range(draw(st.integers(1, 3)))]
        case = {"kind": kind, "paras": paras, "width": width, "gap": draw(st.sampled_from(["\n\n", "\n\n\n"])), "inner": draw(st.sampled_from([" ", " ", "\n", "  "]))}
    return case


def _excluded(case: dict, disabled: set[str]) -> str | None:
    w = case["width"]
    if "first_word_overflow" in disabled and w > 0:
        if case["kind"] == "wpl" and case["tokens"] and case["ic"] > case["so"] and case["ic"] + len(case["tokens"][0]) > w:
            return "first_word_overflow"
        if case["kind"] == "wp" and case["tokens"]:
            c0 = len(case["ii"]) + case.get("ic", 0)
            if c0 > len(case["si"]) and c0 + len(case["tokens"][0]) > w:
                return "first_word_overflow"
    return None


def shard_work(ctx: Ctx) -> None:
    ctx.run_cases("sweep_wrap_paragraph_lines", _sweep(ctx, 4 if ctx.quick else 6), exhaustive=True)
    dis = frozenset(ctx.disabled)

    def keep(c: dict) -> bool:
        r = _excluded(c, ctx.disabled)
        if r:
            ctx.res.counters["excluded:" + r] += 1
            return False
        return True

    ctx.run_hypothesis("random_wrappers", _random_case(dis).filter(keep), ctx.n(40000, 1500000))


EXHAUSTIVE_IF = {"quick": ["sweep_wrap_paragraph_lines"], "thorough": ["sweep_wrap_paragraph_lines"]}
