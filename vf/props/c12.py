"""C12 — formatting always terminates with well-formed output.

For any text (within a size bound and a nesting-depth bound enforced by construction) and any option values:
  * reformat_text returns a str, does not raise, and finishes within a CPU budget (a hang shows as case-timeout);
  * Markdown mode: the result ends with a newline;
  * no placeholder (NUL 'AC' digits NUL), NUL or other control character appears that was not in the input;
  * blank lines inside code blocks carry no added trailing whitespace;
  * pumped families: cpu(4n) <= 6 * cpu(2n) + c  and an absolute bound.
"""

from __future__ import annotations

import re
import time
import unicodedata

from hypothesis import strategies as st

from vf import opts as vopts
from vf import textgen
from vf.core import Ctx, Failure, Note

ID = "C12"
LEVEL = "exploration"
TECHNIQUE = "Hypothesis text soup over a weighted alphabet + coverage-guided fuzzing (atheris, thorough tier) + pumped input families; crash / CPU-budget / well-formedness oracles"
RULE = (
    "cases = Unicode soup (<= 2 KB) over a weighted alphabet of all Markdown punctuation, tag delimiters, quotes, dots, digits, letters, CJK, "
    "spaces, tabs, CR/LF mixes, VT/FF and other C0/C1 controls, LS/PS, astral characters -- with '>' runs per line <= 8 and other delimiter runs "
    "<= 64 (the nesting-depth bound) x width in Z x every option combination incl. plaintext; structured documents with code blocks in "
    "containers; pumped families at n, 2n, 4n. Non-trivial = the text has >= 3 distinct Markdown delimiter classes or a control character; "
    "distinct by SHA-1 of the case."
)
LEVEL_TEXT = (
    "Generated-input exploration (~25k soups quick, ~500k thorough plus 16 x 10 min coverage-guided fuzzing) with crash, CPU-budget and "
    "output well-formedness oracles inside the target. 'Never hangs' is a CPU budget on bounded inputs, not a termination proof."
)
LEVEL_NOTE = "CPU time is measured with time.process_time around each call; thresholds are >= 20x the worst value observed on the unchanged tree for the same size class. Inputs beyond the nesting bound are pinned as known findings."
ASSUMPTIONS = [
    "input size <= 2 KB for soups (pumped families grow to ~32 KB), block-quote nesting <= 8, other delimiter runs <= 64",
    "Marko's documented input normalisation (CR, FF -> LF; NUL -> U+FFFD) is applied before comparing control characters",
]
BUDGET = {"quick": 120, "thorough": 1800}
CASE_TIMEOUT_S = 25
CPU_BUDGET_S = 6.0

_PLACEHOLDER = re.compile(r"\x00AC\d+\x00")
_DELIMS = {"*": "emph", "_": "emph", "`": "code", "[": "link", "]": "link", "(": "link", ")": "link", "<": "html", ">": "quote", "#": "heading", "-": "list", "+": "list",
           "|": "table", "{": "tag", "}": "tag", "%": "tag", "~": "strike", "\\": "escape", "!": "image", "&": "entity", "=": "setext", ":": "def"}


def _show(s: str, n: int = 500) -> str:
    r = repr(s)
    return r if len(r) <= n else r[:n] + "…"


def wellformed(text: str, out, o: dict) -> tuple[str, str] | None:
    if not isinstance(out, str):
        return "not-a-string", f"returned {type(out).__name__}"
    if not o.get("plaintext") and not out.endswith("\n"):
        return "no-final-newline", f"output {_show(out[-80:])} does not end with a newline"
    if _PLACEHOLDER.search(out) and not _PLACEHOLDER.search(text):
        return "placeholder-leaked", f"output contains {_PLACEHOLDER.search(out).group(0)!r}"
    in_ctrl = {c for c in text if unicodedata.category(c) == "Cc"}
    for c in set(out):
        if unicodedata.category(c) == "Cc" and c not in in_ctrl and c != "\n":
            return "control-character-invented", f"output contains control character {c!r} that is not in the input"
    return None


_FENCE = re.compile(r"^((?:[ \t]*(?:>|[-*+](?=[ \t])|\d{1,9}[.)](?=[ \t])|\[\^[^\]]*\]:))*[ \t]*)(`{3,}|~{3,})(.*)$")


def code_blank_lines_clean(out: str) -> str | None:
    """Inside fenced code blocks of the output, a line holding only the container prefix must have no trailing whitespace
    (flowmark emits the right-stripped prefix for empty code lines)."""
    fence = None
    for ln in out.split("\n"):
        m = _FENCE.match(ln)
        if fence is None:
            if m:
                fence = (m.group(1), m.group(2)[0], len(m.group(2)))
            continue
        prefix, ch, n = fence
        if m and m.group(2)[0] == ch and len(m.group(2)) >= n and m.group(3).strip() == "":
            fence = None
            continue
        if set(ln) <= set(" \t>") and ln != ln.rstrip() and len(ln) <= len(prefix):
            # a line holding only (part of) the container prefix; a code line made of spaces only would be longer
            return f"blank line inside a code block has trailing whitespace: {ln!r}"
    return None


def _run(text: str, o: dict):
    t0 = time.process_time()
    out = vopts.fmt(text, o)
    return out, time.process_time() - t0


def check_case(case: dict, note: Note) -> Failure | None:
    kind = case["kind"]
    if kind in ("soup", "structured"):
        text, o = case["text"], case["opts"]
        classes = {_DELIMS[c] for c in text if c in _DELIMS}
        has_ctrl = any(unicodedata.category(c) == "Cc" and c not in "\n" for c in text)
        note.nontrivial = len(classes) >= 3 or has_ctrl
        if has_ctrl:
            note.label("control_chars")
        if o.get("plaintext"):
            note.label("plaintext")
        out, cpu = _run(text, o)
        if cpu > CPU_BUDGET_S:
            return Failure("cpu-budget", f"{cpu:.1f}s CPU for a {len(text)}-character input (budget {CPU_BUDGET_S}s): input={_show(text)} opts={o}", {"cpu": cpu})
        bad = wellformed(text, out, o)
        if bad:
            return Failure(bad[0], f"{bad[1]}\ninput={_show(text)}\nopts={o}\noutput={_show(out)}")
        if kind == "structured" and not o.get("plaintext"):
            why = code_blank_lines_clean(out)
            if why:
                return Failure("code-blank-line-trailing-space", f"{why}\ninput={_show(text)}\nopts={o}\noutput={_show(out)}")
        return None
    if kind == "pumped":
        fam, n, o = case["family"], case["n"], case["opts"]
        note.nontrivial = True
        note.label("family_" + fam)
        cpus = []
        for k in (n, 2 * n, 4 * n):
            text = FAMILIES[fam](k)
            out, cpu = _run(text, o)
            bad = wellformed(text, out, o)
            if bad:
                return Failure(bad[0], f"family {fam} n={k}: {bad[1]}")
            cpus.append(cpu)
        if cpus[2] > 6 * cpus[1] + 0.5:
            return Failure("super-linear-growth", f"family {fam}: cpu(n={n})={cpus[0]:.2f}s cpu(2n)={cpus[1]:.2f}s cpu(4n)={cpus[2]:.2f}s opts={o}", {"family": fam})
        if cpus[2] > ABS_LIMIT.get(fam, 20.0):
            return Failure("cpu-budget", f"family {fam} n={4 * n}: {cpus[2]:.1f}s CPU (limit {ABS_LIMIT.get(fam, 20.0)}s)", {"family": fam})
        return None
    raise AssertionError(kind)


FAMILIES = {
    "open_brackets": lambda n: "[" * n + "\n",
    "emph_words": lambda n: "*a " * n + "\n",
    "code_spans": lambda n: "`a` " * n + "\n",
    "tags": lambda n: "{% a %}" * n + "\n",
    "tags_spaced": lambda n: "{% a %} x " * n + "\n",
    "comment_openers": lambda n: "<!-- " * n + "\n",
    "backslashes": lambda n: "\\" * n + "\n",
    "table_rows": lambda n: "| a | b |\n|---|---|\n" + "| 1 | 2 |\n" * n,
    "link_defs": lambda n: "".join(f"[l{i}]: /u{i}\n" for i in range(n)) + "\n" + " ".join(f"[l{i}]" for i in range(n)) + "\n",
    "list_items": lambda n: "- item text here\n" * n,
    "paragraphs": lambda n: "Some words in a paragraph. Another sentence!\n\n" * n,
    "long_paragraph": lambda n: "word " * (n * 4) + "\n",
    "quotes": lambda n: "'a' \"b\" it's " * n + "\n",
    "dots": lambda n: "wait... " * n + "\n",
    "headings": lambda n: "# **H**\n\n" * n,
    "nested_lists_bounded": lambda n: "".join("  " * (i % 8) + "- x\n" for i in range(n)),
    "html_tags": lambda n: "<b>x</b> " * n + "\n",
    "pipes": lambda n: "a | b " * n + "\n",
    "underscores": lambda n: "_" * n + "a\n" if n <= 64 else ("_" * 64 + "a ") * (n // 64) + "\n",
}
ABS_LIMIT = {"code_spans": 40.0, "tags": 40.0, "tags_spaced": 40.0}
PUMP_N = {"open_brackets": 200, "code_spans": 400, "tags": 300, "tags_spaced": 300, "link_defs": 60, "table_rows": 200, "long_paragraph": 400}


ALPHABET = (
    list("*_`[]()<>#-+|{}%~\\!&=:.'\"") * 3
    + list("abcXYZ019 ") * 3
    + ["\n"] * 12 + [" "] * 10 + ["\t", "\r", "\r\n", "\x0b", "\x0c", "\x00", "\x1b", "\x1c", "\x85", " ", " ", " ", "​", "﻿"]
    + ["中", "é", "😀", "𝒳", "…", "“", "’", "—"]
    + ["{%", "%}", "{{", "}}", "{#", "#}", "<!--", "-->", "```", "~~~", "---", "===", "1.", "- ", "> ", "    ", "[^a]:", "[x]", "](", "**", "__", "<b>", "</b>", "&amp;", "\\\n", "  \n", "|---|", "...", "AC0"]
)


def _bound_depth(s: str) -> str:
    lines = []
    for ln in s.split("\n"):
        # at most 8 '>' markers in the line's leading marker run
        m = re.match(r"^([ \t>]*)", ln)
        lead = m.group(1)
        if lead.count(">") > 8:
            keep = 0
            out = []
            for c in lead:
                if c == ">":
                    keep += 1
                    if keep > 8:
                        continue
                out.append(c)
            ln = "".join(out) + ln[len(lead):]
        lines.append(ln)
    s = "\n".join(lines)
    return re.sub(r"([*_`~\[\]()<>#+=-])\1{64,}", lambda m: m.group(1) * 64, s)


def _soup():
    return st.lists(st.sampled_from(ALPHABET), min_size=0, max_size=600).map(lambda xs: _bound_depth("".join(xs)[:2048]))


def _any_opts():
    return st.fixed_dictionaries({
        "width": st.one_of(st.integers(-5, 130), st.sampled_from([0, 1, 88, 10**6, -10**6, 2**31])),
        "plaintext": st.booleans(), "semantic": st.booleans(), "cleanups": st.booleans(), "smartquotes": st.booleans(), "ellipses": st.booleans(),
        "list_spacing": st.sampled_from(["preserve", "loose", "tight"]),
    })


@st.composite
def _soup_case(draw):
    return {"kind": "soup", "text": draw(_soup()), "opts": draw(_any_opts())}


@st.composite
def _structured_case(draw):
    feat = frozenset(textgen.ALL - {"haz_fence"})
    text = draw(textgen.doc(feat, depth=3, hi=5))
    return {"kind": "structured", "text": text, "opts": draw(_any_opts())}


def _pumped(ctx: Ctx):
    i = 0
    base = {"width": 88, "plaintext": False, "semantic": True, "cleanups": True, "smartquotes": True, "ellipses": True, "list_spacing": "preserve"}
    for fam in FAMILIES:
        for o in (base, dict(base, semantic=False, width=30), dict(base, plaintext=True)):
            i += 1
            if i % ctx.nshards != ctx.shard:
                continue
            yield {"kind": "pumped", "family": fam, "n": PUMP_N.get(fam, 500) if ctx.quick else 2 * PUMP_N.get(fam, 500), "opts": o}


MARKERS = ["-", "*", "1.", "2)", ">", "#", "######", "[^a]:", "[a]:", "```", "~~~", "|", "- [ ]", "<!--", "{%", "===", "---", "\\", "[x](", "![", "<b>", "&"]
BLANKS = ["", " ", "\t", " \t", "\t ", "\t\t", "   ", "    ", "\x0b", "\x0c", "\u00a0", "\u2003", "\r"]
FOLLOW = ["x", "", "- y", "x\n  z", "x\n\tz", "`c`", "\tx", "[^a]"]


def _marker_whitespace(ctx: Ctx):
    """Every block marker followed by every kind of blank run and a few continuations, alone and inside containers:
    the parser steps that decide how much of a line a marker consumes (tabs are expanded there)."""
    i = 0
    base = {"width": 88, "plaintext": False, "semantic": False, "cleanups": False, "smartquotes": False, "ellipses": False, "list_spacing": "preserve"}
    for pre in ("", "a\n", "- ", "> ", "1. ", "[^n]: ", ">\t", "-\t", "1.\t", " \t", "> > ", "- > "):
        for m in MARKERS:
            for b in BLANKS:
                for f in FOLLOW:
                    i += 1
                    if i % ctx.nshards != ctx.shard:
                        continue
                    yield {"kind": "soup", "text": pre + m + b + f + "\n", "opts": base if i % 3 else dict(base, semantic=True, width=20)}


def _placeholder_texts(ctx: Ctx):
    """Atomic constructs and text that looks like the inside of the word splitter's placeholders (NUL + "AC<n>" + NUL),
    in every arrangement of four slots: a restored placeholder must never be made of pieces of its neighbours."""
    import itertools

    slots = ["<b>", "`c`", "[]", "{% t %}", "AC0", "AC1", "AC2", " "]
    base = {"width": 88, "plaintext": False, "semantic": False, "cleanups": False, "smartquotes": False, "ellipses": False, "list_spacing": "preserve"}
    for i, combo in enumerate(itertools.product(slots, repeat=4)):
        if i % ctx.nshards != ctx.shard:
            continue
        yield {"kind": "soup", "text": "".join(combo) + "\n", "opts": base if i % 2 else dict(base, width=1, semantic=True)}


def shard_work(ctx: Ctx) -> None:
    ctx.run_cases("pumped_families", _pumped(ctx), exhaustive=True)
    ctx.run_cases("placeholder_texts", _placeholder_texts(ctx), exhaustive=True)
    ctx.run_cases("marker_whitespace", _marker_whitespace(ctx), exhaustive=True)
    ctx.run_hypothesis("unicode_soup", _soup_case(), ctx.n(20000, 500000))
    ctx.run_hypothesis("structured_documents", _structured_case(), ctx.n(4000, 100000))
    if not ctx.quick:
        from vf import fuzz_c12

        fuzz_c12.campaign(ctx)
