"""C07 — YAML frontmatter is passed through exactly and does not influence the body.

Oracles (DESIGN §3 C07):
  closed block B (CRLF->LF applied, nothing else):
     (1) f(lead + B + body, o) starts with B
     (2) f(lead + B + body, o) == B + f(body, o)
  unclosed block x:
     (3) f(x, o) == x if x ends with "\n" else x + "\n";   f^n(x) == f(x) for n <= 4
"""

from __future__ import annotations

from hypothesis import strategies as st

from vf import opts, textgen
from vf.core import Ctx, Failure, Note

ID = "C07"
LEVEL = "exploration"
TECHNIQUE = "property-based testing (Hypothesis): exact-prefix + differential relation f(fm+body)=fm+f(body), fixed-point iteration for unclosed blocks"
RULE = (
    "cases = Hypothesis-generated (frontmatter lines over a weighted alphabet incl. VT FF FS GS RS NEL LS PS, lone CR, quotes, "
    "dots, Markdown/tag syntax; delimiter spelling; LF/CRLF; leading blank lines; generated Markdown body; all option sets) and "
    "unclosed blocks. Non-trivial = (closed block containing >=1 character from the exotic/quote/markdown classes AND non-empty body) "
    "OR unclosed block; distinct by SHA-1 of the whole case."
)
LEVEL_TEXT = (
    "Generated-input exploration: ~9k (quick) / ~400k (thorough) frontmatter x body x option cases per run, each decided by an exact "
    "prefix check and the differential equation f(fm+body)=fm+f(body) against the real reformat_text; unclosed blocks by equality with "
    "the input and a 4-pass fixed point. Held on everything explored; not a proof."
)
LEVEL_NOTE = "Trusts only Python and the harness; the reference side of the differential is flowmark itself on the body alone (a relation between two runs, as the property states it)."
ASSUMPTIONS = [
    "Markdown mode only (plaintext mode has no frontmatter handling by design)",
    "a body whose first non-blank line is '---' is excluded: alone it would itself be a frontmatter document",
    "block lines never end in CR in LF mode (a CR before LF is a CRLF line end by definition)",
]
BUDGET = {"quick": 60, "thorough": 900}

EXOTIC = "\x0b\x0c\x1c\x1d\x1e\x85  "
QUOTEY = "'\"`.…"
MDSYN = "*_#>-+|[](){}%<!~\\&"
PLAIN = "abcXYZ019:, \t é中"
ALPHABET = EXOTIC * 3 + QUOTEY * 2 + MDSYN + PLAIN * 2 + "\r"


def _line():
    base = st.text(alphabet=st.sampled_from(ALPHABET), min_size=0, max_size=24)
    common = st.sampled_from(
        ["title: Test", "date: 2023-01-01", 'q: "it\'s ... here"', "list:", "  - a", "  - b", "k: |", "    text   ", "", "",
         "# comment", "x: {% tag %}", "a: <!-- c -->", "- item", "1. one", "long: " + "word " * 30, "--", "----", "--- x", "...",
         "key: 'single'", "  indented: yes  ", "\ttabbed", "***", "===", "> q", "```", "| a | b |",
         # a '---' that only an over-eager line splitter would see as a line of its own
         "k: v\x85---\x85w", "a\u2028---\u2028b", "x\x0c---\x0cy", "p\x1c---\x1dq", "r\u2029---", "---\x0bs", "t\r---\ru", "v \x85 --- \x85 w"]
    )
    return st.one_of(base, base, common).map(lambda s: s.rstrip("\r") if s.endswith("\r") else s).filter(
        lambda s: s.strip() != "---" and "\n" not in s
    )


def _delim():
    return st.sampled_from(["---", "---", "---", "--- ", "---  ", "---\t", " ---", "  --- "])


BODY_FEAT = textgen.ALL - {"tagline"}


def _body():
    return st.one_of(
        st.just(""),
        st.sampled_from(["\n", "\n\n", "x", "# H\n", "\n# H\n\ntext\n", "   \n"]),
        textgen.doc(textgen.BASIC, depth=1, hi=3),
        textgen.doc(BODY_FEAT, depth=2, hi=4),
        textgen.doc(BODY_FEAT, depth=2, hi=4),
    ).filter(_body_ok)


def _body_ok(b: str) -> bool:
    for ln in b.replace("\r\n", "\n").split("\n"):
        if ln.strip() == "":
            continue
        return ln.strip() != "---"
    return True


@st.composite
def closed_case(draw):
    lines = draw(st.lists(_line(), min_size=0, max_size=8))
    o, c = draw(_delim()), draw(_delim())
    crlf = draw(st.integers(0, 4)) == 0
    lead = draw(st.sampled_from(["", "", "", "\n", "\n\n", "  \n"]))
    body = draw(_body())
    sep = draw(st.sampled_from(["", "", "\n", "\n\n"]))
    return {
        "kind": "closed",
        "lead": lead,
        "block_lines": [o] + lines + [c],
        "crlf": crlf,
        "body": sep + body,
        "opts": draw(opts.md_options()),
    }


@st.composite
def unclosed_case(draw):
    lines = draw(st.lists(_line(), min_size=0, max_size=8))
    o = draw(_delim())
    lead = draw(st.sampled_from(["", "", "", "\n", "\n\n"]))
    end = draw(st.sampled_from(["", "\n", "\n", "\n\n"]))
    crlf = draw(st.integers(0, 5)) == 0
    nl = "\r\n" if crlf else "\n"
    text = lead + nl.join([o] + lines) + end
    return {"kind": "unclosed", "text": text, "opts": draw(opts.md_options())}


def build_closed(case: dict) -> tuple[str, str, str]:
    """Returns (input text, expected block B, body as given to the formatter alone)."""
    nl = "\r\n" if case["crlf"] else "\n"
    block_in = nl.join(case["block_lines"]) + nl
    body = case["body"].replace("\n", nl) if case["crlf"] else case["body"]
    B = "\n".join(case["block_lines"]) + "\n"
    return case["lead"] + block_in + body, B, body


def _show(s: str, n: int = 400) -> str:
    r = repr(s)
    return r if len(r) <= n else r[:n] + "…"


def check_case(case: dict, note: Note) -> Failure | None:
    o = case["opts"]
    if case["kind"] == "closed":
        # soundness of the generated case (replay files may be hand-written)
        bl = case["block_lines"]
        assert len(bl) >= 2 and bl[0].strip() == "---" and bl[-1].strip() == "---", "domain: delimiters"
        assert all("\n" not in ln and not ln.endswith("\r") for ln in bl), "domain: one line each"
        assert all(ln.strip() != "---" for ln in bl[1:-1]), "domain: inner line closes the block"
        assert case["lead"].strip() == "" and _body_ok(case["body"]), "domain: lead/body"
        x, B, body = build_closed(case)
        inner = "".join(case["block_lines"][1:-1])
        has_special = any(ch in EXOTIC + QUOTEY + MDSYN + "\r" for ch in inner)
        note.nontrivial = has_special and body.strip() != ""
        if any(ch in EXOTIC for ch in inner):
            note.label("fm_exotic_lineend_char")
        if "\r" in inner:
            note.label("fm_lone_cr")
        if case["crlf"]:
            note.label("crlf")
        if body.strip():
            note.label("body_nonempty")
        out = opts.fmt(x, o)
        if not out.startswith(B):
            return Failure("frontmatter-not-exact", f"input={_show(x)}\nopts={o}\nexpected prefix={_show(B)}\noutput={_show(out)}")
        alone = opts.fmt(body, o)
        if out != B + alone:
            return Failure(
                "body-depends-on-frontmatter",
                f"input={_show(x)}\nopts={o}\nf(fm+body)={_show(out)}\nfm+f(body)={_show(B + alone)}",
            )
        return None
    else:
        x = case["text"]
        ls = [ln for ln in x.replace("\r\n", "\n").split("\n")]
        nb = [ln for ln in ls if ln.strip() != ""]
        assert nb and nb[0].strip() == "---" and all(ln.strip() != "---" for ln in nb[1:]), "domain: unclosed"
        assert ls[[ln.strip() != "" for ln in ls].index(True)] == nb[0]
        note.nontrivial = True
        note.label("unclosed")
        want = x if x.endswith("\n") else x + "\n"
        cur = x
        for i in range(4):
            nxt = opts.fmt(cur, o)
            if i == 0 and nxt != want:
                return Failure("unclosed-changed", f"input={_show(x)}\nopts={o}\nexpected={_show(want)}\noutput={_show(nxt)}")
            if i > 0 and nxt != cur:
                return Failure("unclosed-not-stable", f"input={_show(x)}\nopts={o}\npass{i}={_show(cur)}\npass{i + 1}={_show(nxt)}")
            cur = nxt
        return None


def shard_work(ctx: Ctx) -> None:
    ctx.run_hypothesis("closed", closed_case(), ctx.n(6000, 300000))
    ctx.run_hypothesis("unclosed", unclosed_case(), ctx.n(3000, 100000))
