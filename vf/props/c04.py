"""C04 — code, tags, URLs and other non-prose spans are reproduced verbatim.

Documents are built from block specifications whose literal spans are the generator's ground truth:
  * code blocks (fence char/length, info string, exact content lines incl. fence-like lines, container-prefix look-alikes,
    blank / whitespace-only / trailing-space lines, tabs, tag look-alikes, quotes, dots) at every nesting;
  * paragraphs whose tokens include code spans, template tags, HTML comments, inline HTML, links/images with
    destinations and titles, autolinks and bare URLs, reference links.
Oracle: (a) the code blocks read from the output equal the ground truth, in order; (b) the in-order sequence of all other
literal spans read from the output equals the one read from the input (same extractor, vf/literals.py) and equals the
generator's list for code spans / tags / HTML / URLs; for every option set, in particular all typography options on.
"""

from __future__ import annotations

import re

from hypothesis import strategies as st

from vf import canon, literals, opts
from vf.core import Ctx, Failure, Note

ID = "C04"
LEVEL = "exploration"
TECHNIQUE = "Hypothesis documents built from block specs with ground-truth literal spans x all option sets; extracted literal sequence of the output compared with ground truth and with the input's"
RULE = (
    "cases = lists of block specs (code blocks with adversarial contents at nesting top / list / nested list / quote / quote-in-list / "
    "alert; paragraphs, headings, table cells and list items holding code spans, tags, comments, inline HTML, links, images, autolinks, bare "
    "URLs, reference links and definitions) rendered by the harness, x width x semantic x cleanups x smartquotes x ellipses x list spacing. "
    "Non-trivial = at least one literal span and (a typography option on, or a nested container, or fence-like content, or a span with "
    "quote/dot/backtick characters); distinct by SHA-1 of the case."
)
LEVEL_TEXT = (
    "Generated-input exploration with generator ground truth for every literal span (two-directional sequence equality: nothing dropped, "
    "altered, re-quoted, padded or invented), over all option sets; fence adequacy is implied by recovering the exact code content and the "
    "blocks after it."
)
LEVEL_NOTE = "Literal spans are read from the output with flowmark's own parser plus the harness's tag scanner; code spans, tags and inline HTML are compared after collapsing whitespace runs, as the statement allows."
ASSUMPTIONS = [
    "template tags and comments are written on one line (multi-line tags inside containers would pick up container prefixes)",
    "reference labels are compared case-insensitively (Marko normalises labels; matching is case-insensitive in Markdown)",
]
BUDGET = {"quick": 90, "thorough": 1500}

CODE_LINES = ["x = 1", "  indented", "", "", "\tTab", "- not list", "# not heading", "> nq", "| a |", "it's \"q\" ...", "trailing  ", "*", "1. x", "    deep", "\\", "***",
              "   ", "```", "~~~", "```py", "  ```", "````", "~~~~", "    ```", "`` x ``", "<!-- c -->", "{% t %}", "{% /t %}", "[a]: /not-a-def", "---", "===", "\"quoted\" 'x' ...",
              "[^1]: nope", "> [!NOTE]", "<b>bold</b>"]
INFOS = ["", "python", "py extra words", "c++", "{.r}", "js title=\"a b\"", "sh", "text 'q' ..."]
CTX = {
    "top": ("", ""), "list": ("- ", "  "), "olist": ("1. ", "   "), "nested_list": ("- a\n  - ", "    "), "quote": ("> ", "> "), "quote_list": ("> - ", ">   "),
    "alert": ("> [!NOTE]\n> ", "> "), "list_after_text": ("- item text\n\n  ", "  "),
}
SPANS = {
    "code": ["`code`", "`a  b`", "`` a`b ``", "`` `x` ``", "`it's \"q\"...`", "`*not em*`", "`<b>`", "`{% t %}`", "`|`", "`-`", "`1.`", "` lead`", "`trail `", "``` a `` b ```", "`...`", "`x'y`"],
    "tag": ["{% tag %}", '{% field kind="string" id="a b" %}', "{{ var }}", "{{ a | f('x y') }}", "{# a comment #}", "{%- trim -%}", '{% note "hello there" %}',
            "{# it's a \"comment\" here #}", "{% t ... %}", '{% if n % 2 == "odd" %}', "{% a %}{% /a %}"],
    "comment": ["<!-- a comment here -->", "<!--c-->", "<!-- don't \"touch\" this... -->", "<!-- wait... -->", "<!-- f:x --><!-- /f -->"],
    "html": ["<b>", "</b>", "<br/>", '<span class="a b">', "</span>", "<a href=\"x y\" title='t u'>", "<x-y z>", "<i title=\"it's ...\">"],
    "link": ["[text](http://example.com/a_b*c)", "[t](https://x.y/z?q=1&r=2 \"Title here\")", "[t](/rel/path 'single q')", "[t](#frag (paren t))", "![alt](url \"it's\")",
             "[t](<http://a b.c>)", "[*em* `c d`](url)", "[t](u \"a \\\"q\\\" b\")", "[t](u \"wait...\")", "[q](u_(x))", "[ref text][ref1]", "[ref2]", "[ref1][]"],
    "auto": ["<http://auto.link/x>", "<mailto:a@b.c>", "http://bare.example.com/p", "https://e.x/a_(b)", "http://example.com/wiki/Murphy's_law", "http://e.x/wait...more",
             "www.example.com", "user@example.com", "<a@b.co>", "www.example.com/it's"],
}
WORDS = ["alpha", "beta", "it's", "\"quoted\"", "wait...", "word.", "a", "x", "naïve", "—", "(p)", "end!"]
DEFS = ['[ref1]: http://ref.one/x "Ref One"', "[ref2]: /two", "[Ref Three]: http://three.x 'sq ...'"]


def _show(s, n: int = 700) -> str:
    r = repr(s)
    return r if len(r) <= n else r[:n] + "…"


def render_doc(blocks: list[dict]) -> tuple[str, list[tuple], list[str]]:
    """Returns (text, ground-truth code blocks [(info, content)], ground-truth span strings in order)."""
    parts: list[str] = []
    codes: list[tuple] = []
    spans: list[str] = []
    for b in blocks:
        if b["type"] == "code":
            first, rest = CTX[b["ctx"]]
            fence = b["fence_char"] * b["fence_len"]
            info = b["info"] if not (b["fence_char"] == "`" and "`" in b["info"]) else ""
            lines = [fence + info] + list(b["lines"]) + [fence]
            out = []
            for i, ln in enumerate(lines):
                pre = first if i == 0 else rest
                out.append((pre + ln) if ln else pre.rstrip())
            parts.append("\n".join(out))
            content = "\n".join(b["lines"])
            codes.append((info.strip(), content.rstrip("\n")))
        elif b["type"] == "indcode":
            # an indented code block (converted to a fenced one by flowmark: the fence must outgrow fence-like content)
            lines = [ln for ln in b["lines"]]
            parts.append("\n".join(("    " + ln) if ln.strip() else "" for ln in lines))
            codes.append(("", "\n".join(ln if ln.strip() else "" for ln in lines).rstrip("\n")))
        elif b["type"] == "para":
            first, rest = CTX[b["ctx"]]
            toks = b["tokens"]
            if toks and re.match(r"^([-+*>#|=]|\d+[.)]|```|~~~)", toks[0]):
                toks = ["So"] + toks
            parts.append(first + " ".join(toks))
            spans += [t for t in toks if t not in WORDS]
        elif b["type"] == "heading":
            parts.append("#" * b["level"] + " " + " ".join(b["tokens"]))
            spans += [t for t in b["tokens"] if t not in WORDS]
        elif b["type"] == "table":
            head = "| " + " | ".join(b["cells"][0]) + " |"
            delim = "| " + " | ".join("---" for _ in b["cells"][0]) + " |"
            rows = ["| " + " | ".join(r) + " |" for r in b["cells"][1:]]
            parts.append("\n".join([head, delim] + rows))
            spans += [c for r in b["cells"] for c in r if c not in WORDS]
        elif b["type"] == "defs":
            parts.append("\n".join(DEFS))
    return "\n\n".join(parts) + "\n", codes, spans


def _codeblocks(tree) -> list[tuple]:
    return [((r[1] + (" " + r[2] if r[2] else "")).strip(), r[3]) for r in literals.tree_literals(tree) if r[0] == "codeblock"]


def _other(tree) -> list[tuple]:
    out = []
    for r in literals.tree_literals(tree):
        if r[0] == "codeblock":
            continue
        if r[0] == "def":
            out.append(("def", r[1].lower(), r[2], r[3]))
        else:
            out.append(r)
    return out


def check_case(case: dict, note: Note) -> Failure | None:
    blocks, o = case["blocks"], case["opts"]
    x, gt_codes, gt_spans = render_doc(blocks)
    # documented input reading: the text is dedented and stripped first, so a document whose every line is indented (it
    # would be one indented code block) is read without that indent; the generator always starts with an unindented block
    if not any(ln[:1] not in (" ", "\t") for ln in x.split("\n") if ln.strip()):
        note.label("outside_domain_whole_document_indented")
        return None
    tin = canon.read_out(x)  # a plain GFM reading of the harness's own text (no flowmark pre-processing)
    in_codes = _codeblocks(tin)
    if in_codes != gt_codes:
        note.label("generator_mismatch")  # the harness rendered something other than it intended; not flowmark's doing
        return None
    out = opts.fmt(x, o)
    tout = canon.read_out(out)
    typo = o.get("smartquotes") or o.get("ellipses") or o.get("cleanups")
    nested = any(b.get("ctx", "top") != "top" for b in blocks)
    fency = any(re.match(r"^\s*(```|~~~)", ln) for b in blocks if b["type"] == "code" for ln in b["lines"])
    spicy = any(c in s for s in gt_spans for c in "'\"`.")
    note.nontrivial = bool(gt_codes or gt_spans) and bool(typo or nested or fency or spicy)
    for lb, v in (("typography_on", typo), ("nested_container", nested), ("fence_like_content", fency)):
        if v:
            note.label(lb)
    what = f"input={_show(x)}\nopts={o}\noutput={_show(out)}"
    out_codes = _codeblocks(tout)
    if out_codes != gt_codes:
        d = next((p for p in zip(gt_codes, out_codes) if p[0] != p[1]), (gt_codes[len(out_codes):], out_codes[len(gt_codes):]))
        return Failure("code-block-altered", f"code blocks differ from the ground truth: {_show(d, 500)}\n{what}", {"x": x})
    a, b = _other(tin), _other(tout)
    if a != b:
        d = next((p for p in zip(a, b) if p[0] != p[1]), (a[len(b):], b[len(a):]))
        kind = d[0][0] if d and isinstance(d[0], tuple) and d[0] else "len"
        return Failure(f"literal-span-altered:{kind}", f"first differing literal (input vs output): {_show(d, 500)}\n{what}", {"pair": d})
    ta, tb = literals.tags_of(x), literals.tags_of(out)
    if ta != tb:
        d = next((p for p in zip(ta, tb) if p[0] != p[1]), (ta[len(tb):], tb[len(ta):]))
        return Failure("tag-altered", f"template tags / comments differ (input vs output): {_show(d, 400)}\n{what}")
    # ground truth for the span tokens the harness wrote: each must occur in the output, in order, up to whitespace runs
    flat = literals.ws(out)
    pos = 0
    for s in gt_spans:
        if s.startswith(("[", "![")):
            continue  # links are compared through the parsed fields above (their spelling is normalised by design)
        t = literals.ws(s)
        variants = [t]
        if t.startswith("`"):
            inner = t.strip("`")
            variants += [d + inner.strip() + d for d in ("`", "``", "```", "````")] + [d + " " + inner.strip() + " " + d for d in ("``", "```")]
        j = min((flat.find(v, pos) for v in variants if flat.find(v, pos) >= 0), default=-1)
        if j < 0:
            return Failure("span-not-verbatim", f"span {s!r} written by the generator is not found (in order, up to whitespace runs) in the output\n{what}")
        pos = j + 1
    return None


# ---------------------------------------------------------------------------------------------------


@st.composite
def _code_block(draw):
    ch = draw(st.sampled_from(["`", "`", "~"]))
    lines = draw(st.lists(st.sampled_from(CODE_LINES), min_size=0, max_size=7))
    longest = 0
    for ln in lines:
        m = re.match(r"^ {0,3}(" + re.escape(ch) + r"{3,})\s*$", ln)
        if m:
            longest = max(longest, len(m.group(1)))
    flen = max(3, longest + 1) + draw(st.sampled_from([0, 0, 0, 1, 2]))
    # content of a block must not end with blank lines (they are dropped by design) nor start ambiguity
    while lines and lines[-1].strip() == "":
        lines = lines[:-1]
    return {"type": "code", "ctx": draw(st.sampled_from(list(CTX))), "fence_char": ch, "fence_len": flen, "info": draw(st.sampled_from(INFOS)), "lines": lines}


@st.composite
def _tokens(draw, lo=1, hi=14, kinds=None):
    kinds = kinds or list(SPANS)
    tok = st.one_of(st.sampled_from(WORDS), st.sampled_from(WORDS), st.sampled_from([s for k in kinds for s in SPANS[k]]))
    return draw(st.lists(tok, min_size=lo, max_size=hi))


@st.composite
def _case(draw, disabled: frozenset):
    kinds = [k for k in SPANS if ("span_" + k) not in disabled]
    blocks = []
    for _ in range(draw(st.integers(1, 5))):
        t = draw(st.sampled_from(["code", "code", "para", "para", "para", "heading", "table", "indcode"]))
        if t == "code":
            blocks.append(draw(_code_block()))
        elif t == "indcode":
            lines = draw(st.lists(st.sampled_from(["x = 1", "```", "````", "~~~", "  ```", "```py", "", "- a", "`````", "   ````", "# h"]), min_size=1, max_size=5))
            while lines and not lines[0].strip():
                lines = lines[1:]
            while lines and not lines[-1].strip():
                lines = lines[:-1]
            if lines:
                if blocks and blocks[-1]["type"] in ("para", "indcode"):
                    blocks.append({"type": "heading", "level": 2, "tokens": ["alpha"]})  # indented code cannot interrupt a paragraph
                blocks.append({"type": "indcode", "lines": lines})
        elif t == "para":
            blocks.append({"type": "para", "ctx": draw(st.sampled_from(["top", "top", "list", "quote", "olist", "quote_list"])), "tokens": draw(_tokens(kinds=kinds))})
        elif t == "heading":
            blocks.append({"type": "heading", "level": draw(st.integers(1, 4)), "tokens": draw(_tokens(1, 5, kinds=[k for k in kinds if k != "comment"]))})
        else:
            n = draw(st.integers(1, 3))
            cellk = [k for k in kinds if k in ("code", "link", "html")]
            cells = [[draw(st.sampled_from(WORDS + [s for k in cellk for s in SPANS[k] if "|" not in s] + ["`a \\| b`", "x \\| y", "`c\\|d` e"])) for _ in range(n)] for _ in range(draw(st.integers(1, 3)))]
            blocks.append({"type": "table", "cells": cells})
    if any(b["type"] == "indcode" for b in blocks) and blocks[0]["type"] == "indcode":
        # a document whose every line is indented is dedented by design (docstring use): keep one unindented block first
        blocks.insert(0, {"type": "heading", "level": 1, "tokens": ["alpha"]})
    if any("ref" in t for b in blocks for t in b.get("tokens", [])) or draw(st.booleans()):
        blocks.append({"type": "defs"})
    return {"blocks": blocks, "opts": draw(opts.md_options())}


def shard_work(ctx: Ctx) -> None:
    ctx.run_hypothesis("documents", _case(frozenset(ctx.disabled)), ctx.n(6000, 250000))
