"""C11 — semantic line breaks fall at sentence ends and keep edits local.

Ground truth: a paragraph is a list of sentences, each a list of words of which only the last one is a sentence end
by the documented heuristic (>= 2 letters, last one lower-case, then . ? ! with an optional quote/paren).

 (i)   justification : every line break is after a sentence-final word or forced by the width
 (ii)  presence      : a sentence-final word that is not last on its line has a line-so-far shorter than 20
 (iii) locality      : for an edit inside sentence k, lines strictly before the line holding the end of sentence k-1
                       are byte-identical; with j >= k the first sentence whose line-so-far at its last word is >= 20 in
                       BOTH outputs, all lines after the line holding that word are byte-identical
"""

from __future__ import annotations

import re

from hypothesis import strategies as st

from vf.core import Ctx, Failure, Note

ID = "C11"
LEVEL = "exploration"
TECHNIQUE = "Hypothesis-generated sentence lists and single-sentence edits; break-justification/presence invariants and a diff-locality metamorphic relation between two runs"
RULE = (
    "cases = (paragraph as list of sentences with ground-truth sentence ends, edit = insert/delete/replace 1-5 non-final words in sentence k, "
    "width 5..120, indent pair) through line_wrap_by_sentence (function level) and reformat_text(semantic=True) with the paragraph inside a "
    "list item / quote / ordered item and a random source layout (document level). Non-trivial = >= 3 sentences, edit not in the last "
    "sentence, and the two outputs differ; distinct by SHA-1 of the case."
)
LEVEL_TEXT = (
    "Generated-input exploration of a relation between two runs (original and edited paragraph) plus per-output invariants; ~25k edits "
    "quick, ~1M thorough, widths from 5 to 120 and four container indents. Held on everything explored, apart from the pinned known finding."
)
LEVEL_NOTE = "Sentence ends are the generator's ground truth (fixed word pools checked against an independent re-statement of the documented heuristic), not flowmark's regex."
ASSUMPTIONS = [
    "words are drawn from fixed pools that are unambiguous under the documented sentence-end heuristic and contain no Markdown syntax",
    "hard breaks and tag-adjacent newlines (kept by design) are not generated here; they are covered in C05/C06",
]
BUDGET = {"quick": 60, "thorough": 1200}
MIN = 20

NON = ["alpha", "Beta", "it", "a", "I", "word", "longerword", "x", "42", "of", "to", "Supercalifragilistic", "THE", "U.S", "v1", "cat,", "dog;",
       "(paren", "OK.", "A.", "3.x", "e.g.", "i.e.", "No.3", "X!", "naïve", "Ünï", "end.x", "what?!x", "ÉCOLE.", "КОНЕЦ.", "Я.", "ŁÓDŹ."]
END = ["end.", "done!", "really?", "stop.)", "finished.", "ok.", "no.", 'said."', "voilà.", "tête?", "fin.’", "ja!”", "über.", '(so).', "go!'",
       "конец.", "żółć.", "τέλος.", "dům?", "mąż!", "это.”"]

# independent re-statement of the documented heuristic, used only to validate the pools
_LETTER = r"[^\W\d_]"
_IND_END = re.compile(rf"(?<![^\W_]){_LETTER}+(?:[.?!]['\"’”)]?|['\"’”)][.?!])$")


def _ind_is_end(w: str) -> bool:
    m = _IND_END.search(w)
    if not m:
        return False
    letters = re.match(rf"{_LETTER}+", m.group(0)).group(0)
    return len(letters) >= 2 and letters[-1].islower()


assert all(_ind_is_end(w) for w in END), [w for w in END if not _ind_is_end(w)]
assert not any(_ind_is_end(w) for w in NON), [w for w in NON if _ind_is_end(w)]
_END_SET, _NON_SET = set(END), set(NON)

INDENTS = [("", ""), ("- ", "  "), ("> ", "> "), ("10. ", "    "), ("", ""), ("> - ", ">   ")]


def _render_fn(sents: list[list[str]], width: int, ii: str, si: str) -> tuple[list[str], list[str]]:
    from flowmark import line_wrap_by_sentence

    text = " ".join(" ".join(s) for s in sents)
    out = line_wrap_by_sentence(width=width, is_markdown=True)(text, ii, si)
    lines = out.split("\n")
    bodies = [l[len(ii):] if i == 0 else l[len(si):] for i, l in enumerate(lines)]
    for i, l in enumerate(lines):
        if not l.startswith(ii if i == 0 else si):
            raise _Odd(f"line {i} {l!r} lacks its indent")
    return lines, bodies


class _Odd(Exception):
    pass


def _render_doc(sents: list[list[str]], width: int, ii: str, si: str, layout: list[int]) -> tuple[list[str], list[str]]:
    from flowmark import reformat_text

    words = [w for s in sents for w in s]
    src_lines: list[list[str]] = [[]]
    for n, w in enumerate(words):
        src_lines[-1].append(w)
        if layout and layout[n % len(layout)] == 0 and n + 1 < len(words):
            src_lines.append([])
    gap = "  " if layout and layout[0] == 2 else " "
    src = "\n".join((ii if i == 0 else si) + gap.join(l) for i, l in enumerate(src_lines)) + "\n"
    out = reformat_text(src, width=width, semantic=True, cleanups=False)
    if not out.endswith("\n"):
        raise _Odd("no final newline")
    lines = out[:-1].split("\n")
    bodies = []
    for i, l in enumerate(lines):
        ind = ii if i == 0 else si
        if not l.startswith(ind):
            raise _Odd(f"document line {i} {l!r} lacks container prefix {ind!r}: {out!r}")
        bodies.append(l[len(ind):])
    return lines, bodies


def _render_doc2(sents, width, ii, si):
    """One document holding the same paragraph twice: at top level (a short lead-in shifts its first column) and in the
    given container. Returns the container copy, after checking the top-level copy's word sequence (intra-call state
    such as a memo keyed on too little would make the two copies influence each other)."""
    from flowmark import reformat_text

    words = [w for s in sents for w in s]
    text = " ".join(words)
    src = text + "\n\n" + ii + text + "\n"
    out = reformat_text(src, width=width, semantic=True, cleanups=False)
    parts = out[:-1].split("\n\n")
    if len(parts) != 2:
        raise _Odd(f"expected two blocks, got {len(parts)}: {out!r}")
    if " ".join(parts[0].split()) != text:
        raise _Odd(f"top-level copy changed: {parts[0]!r}")
    alone = reformat_text(ii + text + "\n", width=width, semantic=True, cleanups=False)[:-1]
    if parts[1] != alone:
        raise _Odd(f"the paragraph in its container is formatted differently when the same paragraph precedes it at top level:\n together: {parts[1]!r}\n alone   : {alone!r}")
    lines = parts[1].split("\n")
    bodies = []
    for i, l in enumerate(lines):
        ind = ii if i == 0 else si
        if not l.startswith(ind):
            raise _Odd(f"document line {i} {l!r} lacks container prefix {ind!r}")
        bodies.append(l[len(ind):])
    return lines, bodies


def _analyse(sents, lines, bodies):
    words = [w for s in sents for w in s]
    got = " ".join(bodies).split()
    if got != words:
        raise _Odd(f"word sequence changed: {got!r} vs {words!r}")
    pos, widx = [], []
    for li, b in enumerate(bodies):
        for j, _w in enumerate(b.split()):
            pos.append(li)
            widx.append(j)
    endline, sofar = [], []
    k = 0
    for s in sents:
        k += len(s)
        li, j = pos[k - 1], widx[k - 1]
        endline.append(li)
        sofar.append(len(" ".join(bodies[li].split()[: j + 1])))
    return endline, sofar


def _invariants(sents, lines, bodies, width, ii, si, what) -> Failure | None:
    ends = set()
    k = 0
    flat = []
    for s in sents:
        k += len(s)
        ends.add(k - 1)
        flat += s
    n = 0
    for i, b in enumerate(bodies):
        ws_ = b.split()
        acc = 0
        for j, w in enumerate(ws_):
            acc = acc + len(w) + (1 if j else 0)
            is_final = n in ends
            last_on_line = j == len(ws_) - 1
            if is_final and not last_on_line and acc >= MIN:
                return Failure("missing-break-after-sentence", f"{what}: sentence end {w!r} at line-so-far {acc} >= {MIN} is not followed by a break: {lines!r}")
            if last_on_line and i + 1 < len(bodies) and not is_final:
                nxt = bodies[i + 1].split()[0]
                if len(lines[i]) + 1 + len(nxt) <= width:
                    prev_short = i > 0 and len(bodies[i - 1]) < MIN
                    data = {
                        "prev_len": len(bodies[i - 1]) if i > 0 else -1,
                        "this_len": len(bodies[i]),
                        "indent_len": len(ii if i - 1 == 0 else si) if i > 0 else 0,
                        "width": width,
                        "prev_short": prev_short,
                    }
                    return Failure("unjustified-break", f"{what}: break after {w!r} (not a sentence end) although {nxt!r} fits in width {width}: {lines!r}", data)
            n += 1
    return None


def check_case(case: dict, note: Note) -> Failure | None:
    sents, width, ii, si = case["sents"], case["width"], case["ii"], case["si"]
    k, op, new = case["k"], case["op"], case["new"]
    for s in sents:
        assert s and s[-1] in _END_SET and all(w in _NON_SET for w in s[:-1]), "domain: sentence"
    assert all(w in _NON_SET for w in new) and 0 <= k < len(sents) and len(sents) >= 1
    assert width >= 5, "domain: width"
    assert (ii, si) in [tuple(p) for p in INDENTS], "domain: indent pair"
    level = case.get("level", "fn")
    layout = case.get("layout", [])

    def render(ss):
        if level == "doc2":
            return _render_doc2(ss, width, ii, si)
        return _render_fn(ss, width, ii, si) if level == "fn" else _render_doc(ss, width, ii, si, layout)

    body_words = sents[k][:-1]
    if op == 0:
        nb = body_words + new
    elif op == 1:
        nb = new + body_words
    elif op == 2:
        nb = body_words[: len(body_words) // 2]
    elif op == 3:
        nb = new
    else:
        h = len(body_words) // 2
        nb = body_words[:h] + new + body_words[h:]
    sents2 = sents[:k] + [nb + [sents[k][-1]]] + sents[k + 1:]
    what = f"{'line_wrap_by_sentence' if level == 'fn' else 'reformat_text(semantic)'}(w={width}, indents={ii!r}/{si!r})"
    try:
        L, B = render(sents)
        E, S = _analyse(sents, L, B)
        f = _invariants(sents, L, B, width, ii, si, what)
        if f:
            return f
        if sents2 == sents:
            return None
        L2, B2 = render(sents2)
        E2, S2 = _analyse(sents2, L2, B2)
    except _Odd as e:
        return Failure("malformed-output", f"{what}: {e}")
    note.nontrivial = len(sents) >= 3 and k < len(sents) - 1 and L != L2
    note.label("level_" + level)
    if width < 20:
        note.label("narrow_width")
    if k > 0:
        p = min(E[k - 1], E2[k - 1])
        if L[:p] != L2[:p]:
            return Failure("edit-changes-earlier-lines", f"{what}: edit in sentence {k} changed lines before the end of sentence {k - 1}:\n{L!r}\n{L2!r}")
    j = next((q for q in range(k, len(sents)) if S[q] >= MIN and S2[q] >= MIN), None)
    if j is not None:
        note.label("has_sync_point")
        if L[E[j] + 1:] != L2[E2[j] + 1:]:
            return Failure("edit-changes-later-lines", f"{what}: edit in sentence {k}; sentence {j} ends a line of >= {MIN} in both outputs but later lines differ:\n{L!r}\n{L2!r}")
    return None


def _sig_merge_column(case: dict, f: Failure) -> bool:
    """Known finding: the column handed to the wrapper for a sentence that continues a short line omits the joining
    space, so its first line can be one column too long to merge; that line is then broken where the next word would fit.
    Characteristic: previous line short, and previous + this line fill the width exactly without the space."""
    d = f.data
    return (
        f.bucket == "unjustified-break"
        and d.get("prev_short")
        and d["indent_len"] + d["prev_len"] + d["this_len"] <= d["width"] < d["prev_len"] + 1 + d["this_len"]
    )


SIGS = {"merge_column_omits_space": _sig_merge_column}


def _sentence():
    return st.tuples(st.lists(st.sampled_from(NON), min_size=0, max_size=14), st.sampled_from(END)).map(lambda t: t[0] + [t[1]])


@st.composite
def _case(draw, level: str):
    sents = draw(st.lists(_sentence(), min_size=2, max_size=7))
    ii, si = draw(st.sampled_from(INDENTS if level == "fn" else (INDENTS[1:4] if level == "doc2" else INDENTS[:4])))
    width = draw(st.one_of(st.integers(20, 120), st.integers(20, 60), st.integers(5, 19), st.sampled_from([88, 80, 72, 40])))
    case = {
        "level": level,
        "sents": sents,
        "k": draw(st.integers(0, len(sents) - 1)),
        "op": draw(st.integers(0, 4)),
        "new": draw(st.lists(st.sampled_from(NON), min_size=0, max_size=5)),
        "width": width,
        "ii": ii,
        "si": si,
    }
    if level == "doc":
        case["layout"] = draw(st.lists(st.integers(0, 5), min_size=1, max_size=7))
    return case


def shard_work(ctx: Ctx) -> None:
    ctx.run_hypothesis("function_level", _case("fn"), ctx.n(20000, 800000))
    ctx.run_hypothesis("document_level", _case("doc"), ctx.n(6000, 250000))
    ctx.run_hypothesis("same_paragraph_twice_in_one_document", _case("doc2"), ctx.n(4000, 150000))
