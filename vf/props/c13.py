"""C13 — each formatting call is isolated from other calls.

Every call's result (or exception type) must equal what the same call returns in a PRISTINE process: a zygote that
has imported flowmark but never formatted anything forks a fresh child per reference value and per history / schedule under
test, so neither the reference nor the history can be contaminated by earlier cases.

  histories : a generated sequence of calls (reformat_text / fill_markdown / cli stdin->stdout) run one after the other
  schedules : 2-3 real threads, one call each, interleaved by a deterministic scheduler at function-call granularity
              (vf/sched.py); the schedule is generated data with a phase-aware prefix
"""

from __future__ import annotations

import json
import os
import struct
import sys

from hypothesis import strategies as st

from vf import docdomain, textgen
from vf.core import Ctx, Failure, HarnessError, Note

ID = "C13"
LEVEL = "exploration"
TECHNIQUE = "Hypothesis-generated call histories and thread schedules (deterministic cooperative scheduler owning the interleaving); every result compared with the same call in a pristine forked process"
RULE = (
    "histories: 2-8 calls drawn from state-sensitive documents (ending in headings/tables/lists/quotes/code, sharing link-definition labels with "
    "different destinations, footnotes, empty and frontmatter-only texts) and generated documents x a small pool of option sets (so equal-option "
    "sequences occur) through reformat_text, fill_markdown and cli.main; schedules: 2-3 threads with one call each under a scheduler whose "
    "schedule is ('until', thread, function) steps parking threads at named phases followed by ('q', thread, n) quanta. Non-trivial = history of "
    ">= 3 calls with >= 2 distinct option sets, or a schedule with >= 10 context switches of which >= 1 while two live threads have entered "
    "render; distinct by SHA-1 of the case."
)
LEVEL_TEXT = (
    "Generated-input exploration over call histories and over thread interleavings that the harness itself schedules (function-call "
    "granularity inside flowmark/ and marko/), with a pristine-process oracle. Races below call granularity (inside C extensions, between "
    "bytecodes) are not explored; held on everything explored."
)
LEVEL_NOTE = "The reference for every call is computed in a freshly forked copy of a process that has imported flowmark but never called it; sys.settrace drives the scheduler (no source hook)."
ASSUMPTIONS = [
    "interleaving granularity is Python function calls inside flowmark/ and marko/ under the GIL",
    "Marko's Renderer.__enter__ swaps html._charref process-wide during a render; flowmark's renderer never calls html.unescape, so this is noted, not checked",
]
BUDGET = {"quick": 120, "thorough": 1800}
CASE_TIMEOUT_S = 120

# ---------------------------------------------------------------------------------------------------
# zygote: a pristine process that forks one child per request


class _Zygote:
    def __init__(self) -> None:
        self.pid = None
        self.w = self.r = None

    def start(self) -> None:
        if self.pid is not None:
            return
        if "flowmark.formats.flowmark_markdown" in sys.modules and getattr(sys.modules.get("vf.props.c13"), "_FORMATTED", False):
            raise HarnessError("zygote would not be pristine")
        import flowmark  # noqa: F401  (imported, never called, before the fork)
        import flowmark.cli  # noqa: F401

        req_r, req_w = os.pipe()
        res_r, res_w = os.pipe()
        sys.stdout.flush()
        sys.stderr.flush()
        pid = os.fork()
        if pid == 0:
            os.close(req_w)
            os.close(res_r)
            try:
                self._serve(req_r, res_w)
            finally:
                os._exit(0)
        os.close(req_r)
        os.close(res_w)
        self.pid, self.w, self.r = pid, req_w, res_r

    @staticmethod
    def _read_msg(fd):
        head = b""
        while len(head) < 4:
            b = os.read(fd, 4 - len(head))
            if not b:
                return None
            head += b
        (n,) = struct.unpack("<I", head)
        data = b""
        while len(data) < n:
            b = os.read(fd, n - len(data))
            if not b:
                return None
            data += b
        return json.loads(data)

    @staticmethod
    def _write_msg(fd, obj) -> None:
        data = json.dumps(obj).encode()
        os.write(fd, struct.pack("<I", len(data)))
        off = 0
        while off < len(data):
            off += os.write(fd, data[off:off + 65536])

    def _serve(self, req_r, res_w) -> None:
        import signal

        signal.alarm(0)
        while True:
            req = self._read_msg(req_r)
            if req is None:
                return
            pr, pw = os.pipe()
            pid = os.fork()
            if pid == 0:
                os.close(pr)
                try:
                    dn = os.open(os.devnull, os.O_WRONLY)
                    os.dup2(dn, 2)  # "Exception ignored in gc callback" noise while a RecursionError unwinds
                    out = _execute_request(req)
                except BaseException as e:  # noqa: BLE001
                    out = {"harness_error": f"{type(e).__name__}: {e}"}
                try:
                    self._write_msg(pw, out)
                finally:
                    os._exit(0)
            os.close(pw)
            out = self._read_msg(pr)
            os.close(pr)
            os.waitpid(pid, 0)
            self._write_msg(res_w, out if out is not None else {"harness_error": "child died"})

    def ask(self, req: dict) -> dict:
        self.start()
        self._write_msg(self.w, req)
        out = self._read_msg(self.r)
        if out is None:
            raise HarnessError("zygote died")
        if "harness_error" in out:
            raise HarnessError("zygote child: " + out["harness_error"])
        return out


_Z = _Zygote()
_REF_CACHE: dict[str, object] = {}


def _do_call(call: dict):
    """Runs inside a zygote child."""
    from flowmark import reformat_text
    from flowmark.formats.flowmark_markdown import ListSpacing
    from flowmark.linewrapping.markdown_filling import fill_markdown

    o = dict(call["opts"])
    api = call["api"]
    try:
        if api == "reformat_text":
            kw = dict(o)
            kw["list_spacing"] = ListSpacing(kw.get("list_spacing", "preserve"))
            return reformat_text(call["text"], **kw)
        if api == "fill_markdown":
            kw = {k: v for k, v in o.items() if k != "plaintext"}
            kw["list_spacing"] = ListSpacing(kw.get("list_spacing", "preserve"))
            return fill_markdown(call["text"], **kw)
        if api == "cli":
            from vf.cliutil import run_cli

            argv = ["-w", str(o.get("width", 88)), "--list-spacing", o.get("list_spacing", "preserve")]
            for f in ("semantic", "cleanups", "smartquotes", "ellipses", "plaintext"):
                if o.get(f):
                    argv.append("--" + f)
            rc, out, err = run_cli(argv + ["-"], call["text"])
            return ["cli", rc, out]
    except RecursionError:
        return ["raised", "RecursionError"]
    except Exception as e:  # noqa: BLE001
        return ["raised", type(e).__name__]
    raise AssertionError(api)


def _execute_request(req: dict) -> dict:
    sys.setrecursionlimit(1000)
    if req["mode"] == "sequence":
        return {"results": [_do_call(c) for c in req["calls"]]}
    if req["mode"] == "threads":
        import marko.ext.pangu  # noqa: F401  (imported lazily inside render_raw_text: a thread parked inside that import
        #                                        would hold the import lock)
        from vf import sched

        calls = [(lambda c=c: _do_call(c)) for c in req["calls"]]
        res, stats = sched.run_threads(calls, req["schedule"])
        res = [list(r) if isinstance(r, tuple) else r for r in res]
        return {"results": res, "stats": stats}
    raise AssertionError(req["mode"])


def reference(call: dict):
    key = json.dumps(call, sort_keys=True)
    if key not in _REF_CACHE:
        _REF_CACHE[key] = _Z.ask({"mode": "sequence", "calls": [call]})["results"][0]
        if len(_REF_CACHE) > 20000:
            _REF_CACHE.clear()
    return _REF_CACHE[key]


def _show(v, n: int = 500) -> str:
    r = repr(v)
    return r if len(r) <= n else r[:n] + "…"


def check_case(case: dict, note: Note) -> Failure | None:
    calls = case["calls"]
    refs = [reference(c) for c in calls]
    if case["kind"] == "history":
        got = _Z.ask({"mode": "sequence", "calls": calls})["results"]
        optsets = {json.dumps(c["opts"], sort_keys=True) for c in calls}
        note.nontrivial = len(calls) >= 3 and len(optsets) >= 2
        note.label("history_len_%d" % min(len(calls), 8))
        for i, (g, r) in enumerate(zip(got, refs)):
            if g != r:
                return Failure("history-dependent-result", f"call {i} of the history returns something else than alone in a fresh process\nhistory={_show(calls, 1500)}\ncall {i}: {_show(calls[i])}\nin history: {_show(g)}\nalone     : {_show(r)}")
        return None
    if case["kind"] == "threads":
        assert all(c["api"] != "cli" for c in calls), "domain: the CLI shares sys.stdin/sys.stdout process-wide"
        assert 2 <= len(calls) <= 4, "domain: thread count"
        for stp in case["schedule"]:
            assert len(stp) == 3 and stp[0] in ("until", "q") and isinstance(stp[1], int), "domain: schedule step"
        out = _Z.ask({"mode": "threads", "calls": calls, "schedule": case["schedule"]})
        got, stats = out["results"], out["stats"]
        note.nontrivial = stats["switches"] >= 10 and stats["both_in_render_switches"] >= 1
        note.label("threads_%d" % len(calls))
        if stats["both_in_render_switches"]:
            note.label("switch_while_two_threads_in_render")
        if stats["stuck"]:
            # A parked thread may hold a lock (import lock, an internal cache lock) that the running thread needs: with a
            # cooperative scheduler that is an artefact of parking, not a defect. Counted as inconclusive.
            note.label("inconclusive_threads_blocked_on_a_lock")
            note.nontrivial = False
            return None
        for i, (g, r) in enumerate(zip(got, refs)):
            if g != r:
                return Failure("schedule-dependent-result", f"thread {i} returns something else than alone in a fresh process\ncalls={_show(calls, 1500)}\nschedule={case['schedule'][:40]}\nthread {i} concurrent: {_show(g)}\nalone               : {_show(r)}")
        return None
    raise AssertionError(case["kind"])


# ---------------------------------------------------------------------------------------------------
# generators

STATE_DOCS = [
    "", "\n", "---\na: 1\n---\n", "---\ntitle: T\n---\n\n",
    "Some text.\n\n# End heading\n", "## Only a heading\n", "para\n\nSetext end\n===\n",
    "See [the guide][1] and [x][two].\n\n[1]: https://a.example/guide\n[two]: /two \"T\"\n",
    "Read [the guide](https://a.example/guide) and [the changelog][1].\n\n[1]: https://b.example/changelog\n",
    "[a](https://a.example/guide \"T\") [b][1]\n\n[1]: https://a.example/guide \"T\"\n",
    # the same label set with other destinations (state keyed by labels only would confuse these)
    "[x][1] and [y](/b) and [z][2].\n\n[1]: /a\n[2]: /b\n", "[x][1] and [y](/a) and [z](/b).\n\n[1]: /b\n[2]: /a\n",
    "[x][1] and [y](/c).\n\n[1]: /c \"T\"\n[2]: /a\n",
    "Intro\n\n| a | b |\n|---|---|\n| 42 | x |\n", "| 1\\. Setup | x |\n|---|---|\n| 2\\. Build | y |\n\nAfter table.\n",
    "1\\. Not a list, just text.\n", "2025\\. That was the year.\n\n| h |\n|---|\n| 7 |\n",
    "- a\n- b\n\n  second\n", "- a\n\n- b\n", "1. x\n   - nested\n\n     more\n", "> quote end\n", "> - q list\n> - b\n", "```py\ncode\n```\n",
    "Text with a footnote[^1].\n\n[^1]: The note.\n", "[^1]: Another note with the same label.\n\nSee[^1].\n",
    "A `code span` and {% tag %} and <!-- c --> in a fairly long line that needs to be wrapped when the width is small enough. Second sentence!\n",
    "Start `alpha_only()` middle `alpha_two()` and some more words to wrap at a narrow width, again and again.\n",
    "Begin `beta_only()` then `beta_two()` plus [a link](http://b.example/x) and further words so that it wraps too.\n",
    "\"Quoted\" text... isn't it? 'Single' too.\n", "* * *\n", "- [ ] todo\n- [x] done\n", "Hard  \nbreak\\\nhere\n",
]
OPTSETS = [
    {"width": 88, "semantic": False, "cleanups": False, "smartquotes": False, "ellipses": False, "list_spacing": "preserve"},
    {"width": 88, "semantic": True, "cleanups": True, "smartquotes": True, "ellipses": True, "list_spacing": "preserve"},
    {"width": 30, "semantic": False, "cleanups": False, "smartquotes": False, "ellipses": False, "list_spacing": "loose"},
    {"width": 30, "semantic": True, "cleanups": True, "smartquotes": False, "ellipses": False, "list_spacing": "tight"},
    {"width": 0, "semantic": False, "cleanups": False, "smartquotes": True, "ellipses": False, "list_spacing": "preserve"},
    {"width": 20, "semantic": False, "cleanups": False, "smartquotes": False, "ellipses": False, "list_spacing": "preserve", "plaintext": True},
]
MARKERS = ["parse", "render", "parse_inline", "render_paragraph", "render_list", "render_list_item", "render_link", "render_table", "render_heading",
           "enhanced_wrapper", "line_wrapper", "wrap_paragraph_lines", "_extract_atomic_constructs", "_restore_atomic_constructs", "smart_quotes",
           "rewrite_text_across_inlines", "split_sentences_regex", "render_raw_text", "render_literal", "render_blank_line", "fill_markdown", "doc_cleanups"]
RAISER = "*" * 1000 + "a" + "*" * 1000 + "\n"


def _call(feat: frozenset):
    text = st.one_of(st.sampled_from(STATE_DOCS), st.sampled_from(STATE_DOCS), textgen.doc(feat, depth=2, hi=4), st.just(RAISER))
    return st.builds(
        lambda t, o, api: {"api": api if not o.get("plaintext") or api != "fill_markdown" else "reformat_text", "text": t, "opts": o},
        text, st.sampled_from(OPTSETS), st.sampled_from(["reformat_text", "reformat_text", "fill_markdown", "cli"]),
    )


@st.composite
def _history(draw, feat):
    calls = draw(st.lists(_call(feat), min_size=2, max_size=8))
    if draw(st.booleans()):
        # favour same-option neighbours: copy the options of one call onto its successor
        i = draw(st.integers(0, len(calls) - 2))
        calls[i + 1] = dict(calls[i + 1], opts=calls[i]["opts"], api=calls[i]["api"])
    return {"kind": "history", "calls": calls}


@st.composite
def _threads(draw, feat):
    n = draw(st.sampled_from([2, 2, 2, 3]))
    calls = [draw(_call(feat)) for _ in range(n)]
    calls = [c if c["text"] != RAISER else dict(c, text=STATE_DOCS[-7]) for c in calls]
    calls = [c if c["api"] != "cli" else dict(c, api="reformat_text") for c in calls]
    prefix = [["until", i, draw(st.sampled_from(MARKERS))] for i in range(n)]
    if draw(st.booleans()):
        prefix += [["until", draw(st.integers(0, n - 1)), draw(st.sampled_from(MARKERS))] for _ in range(draw(st.integers(1, 3)))]
    quanta = [["q", draw(st.integers(0, n - 1)), draw(st.integers(1, 12))] for _ in range(draw(st.integers(5, 200)))]
    if draw(st.integers(0, 3)) == 0:
        quanta = [["q", draw(st.integers(0, n - 1)), 10**6]] + quanta  # let one thread run a whole call while another is parked
    return {"kind": "threads", "calls": calls, "schedule": prefix + quanta}


def shard_work(ctx: Ctx) -> None:
    feat = frozenset(docdomain.features("C13", ctx) | {"tags", "quotes"})
    ctx.run_hypothesis("histories", _history(feat), ctx.n(2000, 40000))
    ctx.run_hypothesis("thread_schedules", _threads(feat), ctx.n(2000, 40000))
