"""C16 — configuration precedence: explicit flag over config file over default.

A 20-line reference model (MODEL below) computes the effective value of every setting from (argv, config tree, --auto);
the observed values are the keyword arguments that reach flowmark.cli.reformat_files and FileResolverConfig (captured by
replacing those two names from the harness), plus an end-to-end comparison of formatted bytes.
"""

from __future__ import annotations

import itertools
import os
from pathlib import Path

from hypothesis import strategies as st

from vf.cliutil import Scratch, run_cli
from vf.core import Ctx, Failure, HarnessError, Note

ID = "C16"
LEVEL = "exploration"
TECHNIQUE = "exhaustive enumeration of setting x CLI presence/spelling x config value x config kind/sectioning/case x --auto against a reference precedence model; Hypothesis for multi-setting combinations and nested config trees"
RULE = (
    "single-setting product: 12 settings x CLI {absent, given (each argv spelling: long, --opt=value, short, glued short, combined short flags, "
    "unambiguous prefix)} x config {absent, default-equal value, other value} x {.flowmark.toml, flowmark.toml, pyproject.toml} x {flat, sectioned} "
    "x {kebab, snake} x {--auto, not} -- enumerated completely; random: Hypothesis multi-setting combinations and directory chains (depth <= 4) "
    "with candidate config files at several levels. Non-trivial = CLI, config and default do not all agree on the setting's value; distinct by "
    "SHA-1 of the case."
)
LEVEL_TEXT = (
    "Exhaustive over the finite single-setting product (every setting, every argv spelling, every config form) with an independent reference "
    "model of the documented precedence as oracle, observed both as effective keyword arguments and as formatted bytes; generated exploration "
    "for combinations and config-file location."
)
LEVEL_NOTE = "Observation replaces flowmark.cli.reformat_files and flowmark.file_resolver.FileResolverConfig from the harness (no source hook); the model is written from the documentation, not from config.py."
ASSUMPTIONS = [
    "no config file exists above the scratch directory (asserted)",
    "boolean flags can only be given as 'on' on the command line (store_true), --no-respect-gitignore only as 'off'",
]
BUDGET = {"quick": 90, "thorough": 1200}

DEFAULTS = {
    "width": 88, "semantic": False, "cleanups": False, "smartquotes": False, "ellipses": False, "list_spacing": "preserve",
    "extend_include": [], "exclude": None, "extend_exclude": [], "respect_gitignore": True, "force_exclude": False, "files_max_size": 1048576,
}
FORMATTING = ["width", "semantic", "cleanups", "smartquotes", "ellipses", "list_spacing"]
DISCOVERY = ["extend_include", "exclude", "extend_exclude", "respect_gitignore", "force_exclude", "files_max_size"]
AUTO_LOCKED = {"semantic", "cleanups", "smartquotes", "ellipses"}
SECTION = {k: "formatting" for k in FORMATTING} | {k: "file-discovery" for k in DISCOVERY} | {"include": "file-discovery"}

# CLI spellings: setting -> list of (name, argv tokens, value given)
CLI_FORMS = {
    "width": [("long", ["--width", "50"], 50), ("eq", ["--width=50"], 50), ("short", ["-w", "50"], 50), ("glued", ["-w50"], 50),
              ("prefix", ["--wid", "50"], 50), ("long_default", ["--width", "88"], 88), ("short_default", ["-w", "88"], 88)],
    "semantic": [("long", ["--semantic"], True), ("short", ["-s"], True), ("prefix", ["--sem"], True), ("combined_cs", ["-cs"], True),
                 ("combined_is", ["-is"], True), ("combined_ps", ["-ps"], True), ("combined_si", ["-si"], True)],
    "cleanups": [("long", ["--cleanups"], True), ("short", ["-c"], True), ("prefix", ["--clean"], True), ("combined_sc", ["-sc"], True),
                 ("combined_ic", ["-ic"], True), ("combined_pc", ["-pc"], True)],
    "smartquotes": [("long", ["--smartquotes"], True), ("prefix", ["--smart"], True)],
    "ellipses": [("long", ["--ellipses"], True), ("prefix", ["--ell"], True)],
    "list_spacing": [("long", ["--list-spacing", "loose"], "loose"), ("eq", ["--list-spacing=tight"], "tight"), ("prefix", ["--list-sp", "loose"], "loose"),
                     ("long_default", ["--list-spacing", "preserve"], "preserve")],
    "extend_include": [("long", ["--extend-include", "*.mdx"], ["*.mdx"]), ("eq", ["--extend-include=*.txt"], ["*.txt"]),
                       ("twice", ["--extend-include", "*.mdx", "--extend-include", "*.txt"], ["*.mdx", "*.txt"])],
    "exclude": [("long", ["--exclude", "skip/"], ["skip/"]), ("eq", ["--exclude=skip/"], ["skip/"])],
    "extend_exclude": [("long", ["--extend-exclude", "drafts/"], ["drafts/"]), ("eq", ["--extend-exclude=drafts/"], ["drafts/"])],
    "respect_gitignore": [("long", ["--no-respect-gitignore"], False), ("prefix", ["--no-respect"], False)],
    "force_exclude": [("long", ["--force-exclude"], True), ("prefix", ["--force"], True)],
    "files_max_size": [("long", ["--files-max-size", "5000"], 5000), ("eq", ["--files-max-size=5000"], 5000), ("long_default", ["--files-max-size", "1048576"], 1048576)],
}
# config values: setting -> (default-equal value, other value)
CFG_VALUES = {
    "width": (88, 60), "semantic": (False, True), "cleanups": (False, True), "smartquotes": (False, True), "ellipses": (False, True),
    "list_spacing": ("preserve", "tight"), "extend_include": ([], ["*.markdown"]), "exclude": (None, ["only/"]), "extend_exclude": ([], ["cfgx/"]),
    "respect_gitignore": (True, False), "force_exclude": (False, True), "files_max_size": (1048576, 777),
}


def toml_value(v) -> str:
    if isinstance(v, bool):
        return "true" if v else "false"
    if isinstance(v, int):
        return str(v)
    if isinstance(v, str):
        return '"' + v + '"'
    if isinstance(v, list):
        return "[" + ", ".join(toml_value(x) for x in v) + "]"
    raise ValueError(v)


def config_text(values: dict, kind: str, sectioned: bool, kebab: bool) -> str:
    """TOML text for a config file of the given kind holding `values` (setting -> value)."""
    def key(k: str) -> str:
        return k.replace("_", "-") if kebab else k

    prefix = "tool.flowmark" if kind == "pyproject.toml" else ""
    lines: list[str] = []
    if not sectioned:
        if prefix:
            lines.append(f"[{prefix}]")
        for k, v in values.items():
            lines.append(f"{key(k)} = {toml_value(v)}")
    else:
        if prefix and not values:
            lines.append(f"[{prefix}]")
        for sec in ("formatting", "file-discovery"):
            ks = [k for k in values if SECTION[k] == sec]
            if ks:
                lines.append(f"[{prefix + '.' if prefix else ''}{sec}]")
                for k in ks:
                    lines.append(f"{key(k)} = {toml_value(values[k])}")
    return "\n".join(lines) + "\n"


def model(cli: dict, cfg: dict, auto: bool) -> dict:
    """Reference precedence model. cli/cfg: setting -> value for the settings that are given/set."""
    eff = {}
    for k, d in DEFAULTS.items():
        if k in cli:
            eff[k] = cli[k]
        elif k in cfg and not (auto and k in AUTO_LOCKED):
            eff[k] = cfg[k]
        else:
            eff[k] = d
        if auto and k in AUTO_LOCKED:
            eff[k] = True
    return eff


class _Capture:
    def __init__(self) -> None:
        self.fmt: dict | None = None
        self.disc: dict | None = None


def observe(argv: list[str], stdin: str | None = None) -> tuple[_Capture, int, str, str]:
    """Run cli.main(argv) with reformat_files and FileResolverConfig replaced by recorders."""
    import flowmark.cli as cli
    import flowmark.file_resolver as fr

    cap = _Capture()
    real_rf, real_cfg = cli.reformat_files, fr.FileResolverConfig

    def fake_reformat_files(**kw):
        cap.fmt = kw

    def fake_config(**kw):
        cap.disc = kw
        return real_cfg(**kw)

    cli.reformat_files = fake_reformat_files
    fr.FileResolverConfig = fake_config
    try:
        rc, out, err = run_cli(argv, stdin)
    finally:
        cli.reformat_files = real_rf
        fr.FileResolverConfig = real_cfg
    return cap, rc, out, err


def _norm(v):
    from enum import Enum

    if isinstance(v, Enum):
        return v.value
    return v


def _compare(eff: dict, cap: _Capture, what: str) -> list[str]:
    bad = []
    if cap.fmt is None or cap.disc is None:
        return [f"{what}: reformat_files/FileResolverConfig not reached (fmt={cap.fmt is not None}, disc={cap.disc is not None})"]
    for k in FORMATTING:
        got = _norm(cap.fmt.get(k))
        if got != eff[k]:
            bad.append(f"{k}: effective {got!r}, model {eff[k]!r}")
    for k in DISCOVERY:
        got = _norm(cap.disc.get(k))
        if got != eff[k]:
            bad.append(f"{k}: effective {got!r}, model {eff[k]!r}")
    return bad


TEXT = '# **Bold**\n\nA "quoted" sentence that isn\'t short... and goes on and on for a while so that it wraps. Second sentence here!\n\n- a\n- b\n\n1. x\n\n2. y\n'


def check_case(case: dict, note: Note) -> Failure | None:
    from flowmark.config import find_config_file

    kind = case["kind"]
    if kind in ("single", "multi"):
        cli_forms = case["cli"]  # list of [setting, form_name]
        cfg = {k: (None if v == "__none__" else v) for k, v in case["cfg"].items()}
        cfg = {k: v for k, v in cfg.items() if v is not None or k == "exclude_never"}
        auto = case["auto"]
        argv: list[str] = []
        cli_vals: dict = {}
        for setting, form in cli_forms:
            f = next(x for x in CLI_FORMS[setting] if x[0] == form)
            argv += f[1]
            cli_vals[setting] = f[2]
            # combined short flags also switch on their partner
            if form.startswith("combined_"):
                for ch in form.split("_")[1]:
                    other = {"s": "semantic", "c": "cleanups"}.get(ch)
                    if other:
                        cli_vals[other] = True
        eff = model(cli_vals, cfg, auto)
        sources = set()
        for k in set(cli_vals) | set(cfg):
            vals = [DEFAULTS[k]] + ([cli_vals[k]] if k in cli_vals else []) + ([cfg[k]] if k in cfg else [])
            if any(v != vals[0] for v in vals):
                sources.add(k)
        note.nontrivial = bool(sources)
        note.label("auto" if auto else "no_auto")
        for setting, form in cli_forms:
            note.label("spelling_" + form.split("_")[0])
        with Scratch("vf_c16_") as d:
            _assert_clean_above(d)
            if case["cfg_kind"] != "none":
                (d / case["cfg_kind"]).write_text(config_text(cfg, case["cfg_kind"], case["sectioned"], case["kebab"]), encoding="utf-8")
            (d / "sub").mkdir()
            (d / "sub" / "a.md").write_text(TEXT, encoding="utf-8")
            pre = ["--auto"] if auto else []
            cap, rc, out, err = observe(pre + argv + ["."])
            if rc != 0:
                return Failure("cli-failed", f"argv={pre + argv + ['.']} config={case} exit {rc}: {err[:300]}")
            if "nrecognized" in err:
                return Failure("unexpected-warning", f"argv={pre + argv} config kind={case['cfg_kind']} stderr={err[:300]}")
            bad = _compare(eff, cap, "")
            if bad:
                return Failure(
                    "precedence:" + bad[0].split(":")[0],
                    f"argv={pre + argv + ['.']}\nconfig file {case['cfg_kind']} (sectioned={case['sectioned']}, kebab={case['kebab']}):\n"
                    + (config_text(cfg, case["cfg_kind"], case["sectioned"], case["kebab"]) if case["cfg_kind"] != "none" else "<none>")
                    + "\n" + "\n".join(bad),
                )
            # end to end: formatted bytes of stdin under the same argv
            uses_pi = any(f.startswith("combined_") and set(f.split("_")[1]) & {"p", "i"} for _s, f in cli_forms)
            if not auto and not uses_pi:
                from vf import opts

                rc, out, err = run_cli(argv + ["-"], TEXT)
                want = opts.fmt(TEXT, {k: eff[k] for k in FORMATTING})
                if rc != 0 or out != want:
                    return Failure("precedence-end-to-end", f"argv={argv + ['-']} config={cfg} kind={case['cfg_kind']}: output differs from reformat_text under the model's options {[(k, eff[k]) for k in FORMATTING]}\n got {out[:200]!r}\nwant {want[:200]!r}")
        return None

    if kind == "location":
        # chain: list of dir levels from top to bottom; each level: list of [filename, width or None(for pyproject without table)]
        chain = case["chain"]
        note.nontrivial = sum(1 for lvl in chain for _ in lvl) >= 2
        with Scratch("vf_c16l_") as d:
            _assert_clean_above(d)
            cur = d
            expected_width = None
            dirs = []
            for i, lvl in enumerate(chain):
                if i > 0:
                    cur = cur / f"d{i}"
                    cur.mkdir()
                dirs.append(cur)
                for fname, w in lvl:
                    if fname == "pyproject.toml" and w is None:
                        (cur / fname).write_text('[project]\nname = "x"\n', encoding="utf-8")
                    elif fname == "pyproject.toml":
                        (cur / fname).write_text(f"[tool.flowmark]\nwidth = {w}\n", encoding="utf-8")
                    else:
                        (cur / fname).write_text(f"width = {w}\n", encoding="utf-8")
            # model: nearest directory wins; per directory .flowmark.toml > flowmark.toml > pyproject.toml with the table
            for lvl in reversed(chain):
                byname = dict((f, w) for f, w in lvl)
                pick = None
                for fname in (".flowmark.toml", "flowmark.toml", "pyproject.toml"):
                    if fname in byname and byname[fname] is not None:
                        pick = byname[fname]
                        break
                if pick is not None:
                    expected_width = pick
                    break
            os.chdir(dirs[-1])
            (dirs[-1] / "a.md").write_text(TEXT, encoding="utf-8")
            cap, rc, out, err = observe(["a.md"])
            os.chdir(d)
            if rc != 0 or cap.fmt is None:
                return Failure("cli-failed", f"location case {chain}: exit {rc} {err[:200]}")
            want = expected_width if expected_width is not None else 88
            if cap.fmt["width"] != want:
                return Failure("config-location", f"config chain (top to bottom) {chain}: effective width {cap.fmt['width']}, model {want}")
        return None

    if kind == "key_effect":
        key = case["key"]
        note.nontrivial = True
        v1, v2 = case["v1"], case["v2"]
        seen = []
        with Scratch("vf_c16k_") as d:
            _assert_clean_above(d)
            for sub in ("docs", "only", "skip"):
                (d / sub).mkdir()
                (d / sub / "a.md").write_text(TEXT, encoding="utf-8")
                (d / sub / "b.markdown").write_text(TEXT, encoding="utf-8")
                (d / sub / "big.md").write_text(TEXT * 20, encoding="utf-8")
            (d / ".gitignore").write_text("docs/a.md\n", encoding="utf-8")
            for v in (v1, v2):
                (d / "flowmark.toml").write_text(config_text({key: v}, "flowmark.toml", False, case.get("kebab", True)), encoding="utf-8")
                cap, rc, out, err = observe(["--list-files", "."] if key not in FORMATTING else ["docs/a.md"])
                if "nrecognized" in err or "could not parse" in err:
                    return Failure("key-rejected", f"key {key}={v!r}: {err[:200]}")
                listing = out if key not in FORMATTING else None
                seen.append((cap.fmt, cap.disc, listing))
        if seen[0] == seen[1]:
            return Failure("accepted-key-without-effect", f"config key {key!r} is accepted without warning but values {v1!r} and {v2!r} give the same effective options and file listing")
        return None
    raise AssertionError(kind)


def _assert_clean_above(d: Path) -> None:
    from flowmark.config import find_config_file

    if find_config_file(d.parent) is not None:
        raise HarnessError(f"a flowmark config file is visible above {d}")


# ---------------------------------------------------------------------------------------------------


def _single_sweep(ctx: Ctx):
    idx = 0
    for setting in DEFAULTS:
        cli_options = [None] + [f[0] for f in CLI_FORMS[setting]]
        cfg_options = ["absent", "default", "other"]
        for form, cfgopt, (cfg_kind, sectioned, kebab), auto in itertools.product(
            cli_options,
            cfg_options,
            [(".flowmark.toml", False, True), ("flowmark.toml", True, False), ("pyproject.toml", False, True), ("pyproject.toml", True, False),
             (".flowmark.toml", True, True), ("flowmark.toml", False, False)],
            (False, True),
        ):
            idx += 1
            if idx % ctx.nshards != ctx.shard:
                continue
            cfg = {}
            if cfgopt != "absent":
                v = CFG_VALUES[setting][0 if cfgopt == "default" else 1]
                if v is None:
                    continue  # exclude=None cannot be written in TOML
                cfg[setting] = v
            yield {
                "kind": "single", "cli": [[setting, form]] if form else [], "cfg": cfg,
                "cfg_kind": cfg_kind if cfg or cfgopt != "absent" else "none", "sectioned": sectioned, "kebab": kebab, "auto": auto,
            }


@st.composite
def _multi_case(draw):
    settings = draw(st.lists(st.sampled_from(sorted(DEFAULTS)), min_size=2, max_size=5, unique=True))
    cli, cfg = [], {}
    for s in settings:
        r = draw(st.integers(0, 3))
        if r in (0, 2):
            form = draw(st.sampled_from([f[0] for f in CLI_FORMS[s]]))
            cli.append([s, form])
        if r in (1, 2, 3):
            v = CFG_VALUES[s][draw(st.integers(0, 1))]
            if v is not None:
                cfg[s] = v
    # two combined forms that overlap would repeat flags harmlessly; keep
    kind = draw(st.sampled_from([".flowmark.toml", "flowmark.toml", "pyproject.toml"]))
    return {"kind": "multi", "cli": cli, "cfg": cfg, "cfg_kind": kind, "sectioned": draw(st.booleans()), "kebab": draw(st.booleans()), "auto": draw(st.booleans())}


@st.composite
def _location_case(draw):
    depth = draw(st.integers(1, 4))
    chain = []
    w = 30
    for _ in range(depth):
        lvl = []
        for fname in draw(st.lists(st.sampled_from([".flowmark.toml", "flowmark.toml", "pyproject.toml"]), max_size=3, unique=True)):
            w += 1
            if fname == "pyproject.toml" and draw(st.booleans()):
                lvl.append([fname, None])
            else:
                lvl.append([fname, w])
        chain.append(lvl)
    return {"kind": "location", "chain": chain}


KEY_EFFECT = [
    ("width", 40, 60), ("semantic", False, True), ("cleanups", False, True), ("smartquotes", False, True), ("ellipses", False, True),
    ("list_spacing", "loose", "tight"), ("include", ["*.md"], ["*.markdown"]), ("extend_include", [], ["*.markdown"]), ("exclude", ["skip/"], ["only/"]),
    ("extend_exclude", [], ["skip/"]), ("files_max_size", 0, 500), ("respect_gitignore", True, False), ("force_exclude", False, True),
]


def shard_work(ctx: Ctx) -> None:
    ctx.run_cases("single_setting_product", _single_sweep(ctx), exhaustive=True)
    keys = [{"kind": "key_effect", "key": k, "v1": a, "v2": b, "kebab": kb} for (k, a, b) in KEY_EFFECT for kb in (True, False)]
    ctx.run_cases("every_accepted_key_has_an_effect", [c for i, c in enumerate(keys) if i % ctx.nshards == ctx.shard], exhaustive=True)
    ctx.run_hypothesis("multi_setting", _multi_case(), ctx.n(1500, 60000))
    ctx.run_hypothesis("config_location", _location_case(), ctx.n(800, 30000))


EXHAUSTIVE_IF = {"quick": ["single_setting_product", "every_accepted_key_has_an_effect"], "thorough": ["single_setting_product", "every_accepted_key_has_an_effect"]}
