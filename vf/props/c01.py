"""C01 — formatting preserves the meaning of the document.

Oracle A (round trip): canon(read_in(x)) == canon(read_out(f(x, o)))  for o = (width, semantic), cleanups off,
list_spacing=preserve, typography off.  read_in is flowmark's documented reading of its input, read_out is the plain
GFM parser on the output (vf/canon.py).
Oracle B (hazard sweep): paragraphs of filler words with one hazard word at every position, in every container, at every
width: the output re-reads as ONE paragraph with the same words in the same container.
Oracle C (second reader, thorough): markdown-it-py on inputs where both parsers agree.
"""

from __future__ import annotations

import itertools

from hypothesis import strategies as st

from vf import canon, opts, textgen
from vf.core import Ctx, Failure, Note

ID = "C01"
LEVEL = "exploration"
TECHNIQUE = "Hypothesis-generated Markdown documents x layouts x (width, mode): semantic-AST round trip through the parser; bounded-exhaustive hazard-word sweep; second parser (markdown-it) as independent reader"
RULE = (
    "cases = Hypothesis documents from the feature-flagged Markdown grammar (vf/textgen.py: paragraphs with hazard words and inline atoms, "
    "ATX/setext headings, bullet/ordered/task lists, quotes, alerts, fenced/indented code, tables, rules, definitions, footnotes, nesting <= 3) "
    "x width in {0,-3,1..12,13..60,72..100,1e6} x semantic; plus the hazard sweep (hazard word x position x container x every width x mode). "
    "Non-trivial = output has a paragraph wrapped onto >= 2 lines, or a block nested in a container, or a hazard word; distinct by SHA-1 of (text, options)."
)
LEVEL_TEXT = (
    "Generated-input exploration with a two-directional structural oracle (nothing dropped, nothing invented): the canonical tree of the "
    "output equals that of the input for every generated document and option set; the wrap-hazard clause is enumerated exhaustively over "
    "hazard x position x container x width within the stated bounds. Features that hit recorded known findings are switched off in the "
    "generator (listed in the evidence) so the search continues behind them."
)
LEVEL_NOTE = "Semantics are those of flowmark's own GFM parser (Marko + flowmark's extensions), which is the property's 'reading'; markdown-it-py is used as an independent second reader in the thorough tier where both parsers agree on the input."
ASSUMPTIONS = [
    "the first non-blank line of a document is not '---' (frontmatter is C07)",
    "HTML blocks are not generated (flowmark deliberately does not block-parse HTML)",
    "documents come from the shared grammar; features named under excluded_by_known_finding are off",
]
BUDGET = {"quick": 150, "thorough": 1800}


def _head(n) -> str:
    if isinstance(n, tuple) and n and isinstance(n[0], str):
        return n[0]
    if isinstance(n, tuple):
        return "seq"
    return type(n).__name__


def _show(s: str, n: int = 700) -> str:
    r = repr(s)
    return r if len(r) <= n else r[:n] + "…"


def roundtrip(x: str, o: dict, note: Note | None = None) -> Failure | None:
    fm_in, cin = canon.canon_in(x)
    out = opts.fmt(x, o)
    fm_out, cout = canon.canon_out(out)
    if note is not None:
        _classify(x, out, cin, note)
    if cin == cout:
        return None
    d = canon.first_diff(cin, cout)
    path, a, b = d
    bucket = "roundtrip:" + diff_bucket(cin, path, a, b)
    return Failure(bucket, f"input={_show(x)}\nopts={o}\noutput={_show(out)}\nfirst difference at {path}:\n  in : {_show(repr(a), 300)}\n  out: {_show(repr(b), 300)}")


def diff_bucket(tree, path, a, b) -> str:
    """A coarse but informative name for a difference: the chain of node kinds leading to it and what differs."""
    chain = []
    node = tree
    for i in path:
        if isinstance(node, tuple) and node and isinstance(node[0], str) and node[0] not in ("t",):
            chain.append(node[0])
        try:
            node = node[i]
        except (IndexError, TypeError):
            break

    def desc(v):
        if isinstance(v, tuple) and v and isinstance(v[0], str):
            return v[0]
        if isinstance(v, tuple):
            return "[" + ",".join(desc(e) for e in v[:3]) + "]"
        if isinstance(v, str):
            return "str"
        return type(v).__name__

    return "/".join(chain[-3:]) + ":" + desc(a) + "->" + desc(b)


def _classify(x: str, out: str, cin, note: Note) -> None:
    lines = out.split("\n")
    nested = any(l.startswith((">", "  ", "- ", "* ", "+ ")) or l[:1].isdigit() for l in lines)
    # a wrapped paragraph: two consecutive non-blank lines that are not code/table
    wrapped = any(a.strip() and b.strip() and not a.lstrip().startswith(("|", "`", "~", "#")) for a, b in zip(lines, lines[1:]))
    haz = any(w in x.split() for ws_ in textgen.HAZ.values() for w in ws_)
    note.nontrivial = wrapped or nested or haz
    if wrapped:
        note.label("wrapped_paragraph")
    if nested:
        note.label("nested_block")
    if haz:
        note.label("hazard_word")


def check_case(case: dict, note: Note) -> Failure | None:
    kind = case.get("kind", "doc")
    if kind == "doc":
        x = case["text"]
        o = {"width": case["width"], "semantic": case["semantic"], "cleanups": False, "smartquotes": False, "ellipses": False, "list_spacing": "preserve"}
        first = next((l for l in x.split("\n") if l.strip()), "")
        assert first.strip() != "---", "domain: frontmatter"
        return roundtrip(x, o, note)
    if kind == "hazard":
        return _hazard(case, note)
    raise AssertionError(kind)


# ---------------------------------------------------------------------------------------------------
# Known-finding signatures (narrow; each names one recorded root cause)

import re as _re

_PREFIX_RE = _re.compile(r"^(?:[ \t]*>)*[ \t]*")
_HAZ_START = _re.compile(r"^([-*+>](\s|$)|#{1,6}(\s|$)|[0-9]{1,9}[.)](\s|$)|>|(-{2,}|=+|\*{3,}|_{3,})\s*$|`{3,}[^`]*$|~{3,})")
_SENT_END = _re.compile(r"[.?!]['\"’”)]?$|['\"’”)][.?!]$")


def _case_xo(case: dict):
    if case.get("kind", "doc") == "hazard":
        ii, _si = CONTEXTS[case["ctx"]]
        return ii + " ".join(case["words"]) + "\n", case["width"], case["semantic"]
    return case["text"], case["width"], case["semantic"]


def _fmt_c01(x, width, semantic):
    return opts.fmt(x, {"width": width, "semantic": semantic, "cleanups": False, "smartquotes": False, "ellipses": False, "list_spacing": "preserve"})


def _rt_ok(x, width, semantic) -> bool:
    return canon.canon_in(x)[1] == canon.canon_out(_fmt_c01(x, width, semantic))[1]


def semantic_sentence_start_hit(output: str) -> bool:
    """Some output line starts (after container prefixes) with a block-starting word and the previous line ends a sentence."""
    out = output.split("\n")
    for prev, cur in zip(out, out[1:]):
        bodies = {cur[_PREFIX_RE.match(cur).end():], cur.lstrip()}
        t = cur.lstrip()
        while t.startswith(">"):  # every partial removal of quote markers (the hazard may be a '>' itself)
            t = t[1:].lstrip()
            bodies.add(t)
        if any(_HAZ_START.match(b) for b in bodies if b) and _SENT_END.search(prev.rstrip()):
            return True
    return False


def _sig_semantic_sentence_start(case: dict, f: Failure) -> bool:
    """Semantic mode only: a sentence-initial word that starts a block construct lands at a line start unescaped
    (the round trip holds in fill mode at the same width and at width 0)."""
    x, width, semantic = _case_xo(case)
    if not semantic or width <= 0:
        return False
    return semantic_sentence_start_hit(_fmt_c01(x, width, True)) and _rt_ok(x, width, False) and _rt_ok(x, 0, True)


def _sig_trailing_backslash(case: dict, f: Failure) -> bool:
    """A lone backslash word moved to the end of an output line by wrapping reads as a hard break."""
    x, width, semantic = _case_xo(case)
    if width <= 0:
        return False
    out = _fmt_c01(x, width, semantic).split("\n")
    lone = any(_re.search(r"(^|[ \t])\\$", l) for l in out[:-1])
    return lone and _re.search(r"(^|[ \t])\\([ \t]|$)", x) is not None and _rt_ok(x, 0, semantic)


def _has_heading_with_br(node) -> bool:
    if isinstance(node, tuple):
        if node and node[0] == "h" and any(c == ("br",) for c in node[2]):
            return True
        return any(_has_heading_with_br(c) for c in node)
    return False


def _sig_hardbreak_in_setext(case: dict, f: Failure) -> bool:
    """The input has a (multi-line setext) heading that contains a hard line break; an ATX heading cannot hold one."""
    if case.get("kind", "doc") != "doc":
        return False
    return _has_heading_with_br(canon.canon_in(case["text"])[1])


_TAG_EDGE = _re.compile(r"^[ \t>]*(\{%|\{\{|\{#|<!--)|(%\}|\}\}|#\}|-->)[ \t]*\\?$", _re.M)
_ESC_NUM_LINE = _re.compile(r"^[ \t>]*(?:[-*+] +)?\d{1,9}\\[.)]", _re.M)


def _sig_escaped_numeral_in_tag_paragraph(case: dict, f: Failure) -> bool:
    """A paragraph holds a line that starts or ends with a tag delimiter AND a source line that starts with an escaped
    numeral ("1" backslash "." "x"): the renderer drops that escape (the accumulated text is not all digits), and the tag heuristics, on
    for this paragraph, take the line "1. x" for a list item and keep it on its own line, unescaped."""
    if case.get("kind", "doc") != "doc":
        return False
    x, width, semantic = _case_xo(case)
    if not (_TAG_EDGE.search(x) and _ESC_NUM_LINE.search(x)):
        return False
    # the round trip holds once those numeral escapes are replaced by an entity (no escape to drop)
    x2 = _re.sub(r"^([ \t>]*(?:[-*+] +)?\d{1,9})\\([.)])", lambda m: m.group(1) + ("&#46;" if m.group(2) == "." else "&#41;"), x, flags=_re.M)
    return _rt_ok(x2, width, semantic)


def _sig_escaped_backticks(case: dict, f: Failure) -> bool:
    """The output protects a fence-like word at a line start by escaping its backticks; Marko's inline parser then no longer
    finds code spans that follow in the paragraph (each escaped backtick is still tried as a code-span delimiter by its
    non-overlapping scan and swallows the real opener). With the escaped backticks written as entities the output reads back
    as the input does."""
    if case.get("kind", "doc") != "doc":
        return False
    x, width, semantic = _case_xo(case)
    out = _fmt_c01(x, width, semantic)
    if "\\`" not in out:
        return False
    if _re.search(r"(?:\\`){3,}[^\n]*`|`[^\n]*(?:\\`){3,}", out):
        return True  # an escaped fence word and another backtick on the same output line
    # (a private-use character stands in for the escaped backtick on both sides)
    return canon.canon_out(out.replace("\\`", "\ue000"))[1] == canon.map_text(canon.canon_in(x), lambda t: t.replace("`", "\ue000"))[1]


def _sig_closing_tag_alone_after_marker(case: dict, f: Failure) -> bool:
    """Wrapping leaves a closing tag alone on the line right after a list marker line: it is then handled as a block-level
    closing tag (un-indented, set off by a blank line) and leaves the list item."""
    if case.get("kind", "doc") != "doc":
        return False
    x, width, semantic = _case_xo(case)
    out = _fmt_c01(x, width, semantic)
    closing = _re.compile(r"^(\{% /|\{# /|\{\{ /|<!-- /).*(%\}|#\}|\}\}|-->)\\?$")
    ol = out.split("\n")
    src = {l.strip() for l in x.split("\n")}
    return any(closing.match(l) and l.strip() not in src and i >= 2 and ol[i - 1] == "" and _re.match(r"^[ >]*([-*+]|\d+[.)]) ", ol[i - 2]) for i, l in enumerate(ol))


def _sig_task_marker_before_hard_break(case: dict, f: Failure) -> bool:
    """A task item whose text is nothing but a hard line break after the checkbox ("* [ ]" + two spaces or a backslash at
    the line end): the output writes "[ ]\\", which is no checkbox any more."""
    if case.get("kind", "doc") != "doc":
        return False
    return _re.search(r"^[ \t>]*(?:(?:[-*+]|\d+[.)])[ \t]+)*\[[ xX]\](?:[ \t]{2,}|[ \t]*\\)$", case["text"], _re.M) is not None


def _sig_table_first_in_item(case: dict, f: Failure) -> bool:
    """Same root cause as C02's finding of this name: a table that begins on a list marker line (read by Marko only when
    the delimiter row is another item's marker line) is written properly and then not read back as a table."""
    if case.get("kind", "doc") != "doc":
        return False
    x, width, semantic = _case_xo(case)
    out = _fmt_c01(x, width, semantic)
    return _re.search(r"^[ >]*(?:[-*+]|\d+[.)])[ \t]+(?:(?:[-*+]|\d+[.)])[ \t]+)*\|.*\|\n[ >]+\|( :?-+:? \|)+$", out, _re.M) is not None


_BLOCK_LIKE = _re.compile(r"^[ \t>]*(?:[-*+]|\d{1,9}[.)])(?:[ \t]|$)|^[ \t>]*\|")


def tag_and_block_like_paragraph(text: str) -> bool:
    """Some paragraph (run of non-blank lines) of the text holds a line that starts or ends with a tag/comment delimiter and
    another line that looks like a list item or table row."""
    strip = lambda l: _re.sub(r"^[ \t>]*(?:(?:[-*+]|\d{1,9}[.)])[ \t]+)?", "", l)  # noqa: E731
    para: list[str] = []
    for l in text.split("\n") + [""]:
        if l.strip(" \t>"):
            para.append(l)
            continue
        tags = [k for k, a in enumerate(para) if _TAG_EDGE.search(strip(a))]
        blocks = [k for k, a in enumerate(para) if _BLOCK_LIKE.match(a) and k > 0 or _BLOCK_LIKE.match(strip(a))]
        if tags and any(b not in tags or len(tags) > 1 for b in blocks):
            return True
        para = []
    return False


def _sig_block_like_line_next_to_tag_line(case: dict, f: Failure) -> bool:
    """Inside one paragraph of the input, a line that starts or ends with a tag delimiter stands with a line that looks like
    a list item or table row (there it is paragraph text: a lazy continuation, or a marker that cannot interrupt a paragraph).
    The tag heuristics, switched on for the whole paragraph, keep such a line on its own, unescaped, and set it off from a tag
    line by a blank line: it becomes a block (or, wrapped, a lone "-" under text: a heading underline)."""
    if case.get("kind", "doc") != "doc":
        return False
    return tag_and_block_like_paragraph(case["text"])


def _sig_closing_tag_leaves_container(case: dict, f: Failure) -> bool:
    """A closing tag alone on an indented line inside a list item or footnote (a paragraph of its own there): the tag
    heuristics un-indent every closing-tag-only line, so it leaves its container."""
    if case.get("kind", "doc") != "doc":
        return False
    x, width, semantic = _case_xo(case)
    closing = r"(?:\{% /|\{# /|\{\{ /|<!-- /).*(?:%\}|#\}|\}\}|-->)"
    inside = {m.group(1) for m in _re.finditer(r"^[ \t]+(" + closing + r")[ \t]*\\?$", x, _re.M)}
    out = [l.rstrip("\\") for l in _fmt_c01(x, width, semantic).split("\n")]
    return any(t in out for t in inside)


def _sig_footnote_starts_with_list(case: dict, f: Failure) -> bool:
    """A footnote definition whose first block is a list: flowmark indents the continuation of a footnote by four columns
    while the first item starts after "[^label]: ", so what follows the first line lands at another nesting level."""
    if case.get("kind", "doc") != "doc":
        return False
    return _re.search(r"^[ \t>]*\[\^[^\]\n]+\]:[ \t]*(?:[-*+]|\d{1,9}[.)])(?:[ \t]|$)", case["text"], _re.M) is not None


def _sig_pipe_line_under_table(case: dict, f: Failure) -> bool:
    """A line that holds nothing but "|" directly under a table: for Marko it is not a row (no cell) and starts a paragraph
    right under the table; flowmark keeps the two adjacent, and once the paragraph's words are joined to "| a a" that line
    reads as a table row."""
    if case.get("kind", "doc") != "doc":
        return False
    return _re.search(r"\|[^\n]*\n[ \t>]*\|[ \t]*\n", case["text"] + "\n") is not None


def _sig_open_link_paren_before_two_space_break(case: dict, f: Failure) -> bool:
    """Text like "[](()" (a link opener whose parenthesis is not closed on its line) directly before a hard line break written
    with two spaces: normalising the break to a backslash lets Marko read a destination that runs across the line end."""
    if case.get("kind", "doc") != "doc":
        return False
    return _re.search(r"\]\((?:[^()\n]|\([^()\n]*\))*[ \t]{2,}\n", case["text"]) is not None


def _sig_delimiter_run_before_two_space_break(case: dict, f: Failure) -> bool:
    """An emphasis delimiter run directly before a hard line break written with two spaces ("]***<SP><SP><NL>x*"): in the
    source the run is followed by a blank (it cannot open emphasis); with the break normalised to a backslash it is followed
    by punctuation and pairs with a later delimiter."""
    if case.get("kind", "doc") != "doc":
        return False
    return _re.search(r"[*_~][ \t]{2,}\n", case["text"]) is not None


DECOMPOSE_KEY = "text"  # several recorded findings in one document: see core.sig_hit

SIGS = {
    "delimiter_run_before_two_space_break": _sig_delimiter_run_before_two_space_break,
    "pipe_line_under_table": _sig_pipe_line_under_table,
    "open_link_paren_before_two_space_break": _sig_open_link_paren_before_two_space_break,
    "footnote_starts_with_list": _sig_footnote_starts_with_list,
    "table_first_block_of_list_item": _sig_table_first_in_item,
    "block_like_line_next_to_tag_line": _sig_block_like_line_next_to_tag_line,
    "closing_tag_leaves_container": _sig_closing_tag_leaves_container,
    "task_marker_before_hard_break": _sig_task_marker_before_hard_break,
    "escaped_backticks_hide_code_span": _sig_escaped_backticks,
    "closing_tag_alone_after_marker_line": _sig_closing_tag_alone_after_marker,
    "escaped_numeral_in_tag_paragraph": _sig_escaped_numeral_in_tag_paragraph,
    "hardbreak_in_setext_heading": _sig_hardbreak_in_setext,
    "semantic_sentence_start_unescaped": _sig_semantic_sentence_start,
}

# ---------------------------------------------------------------------------------------------------
# Oracle B: hazard sweep

CONTEXTS = {
    "top": ("", ""),
    "bullet": ("- ", "  "),
    "ordered": ("1. ", "   "),
    "quote": ("> ", "> "),
    "quote_bullet": ("> - ", ">   "),
    "footnote": ("[^a]: ", "    "),
}
HAZARDS = ["-", "+", "*", "1.", "2)", "10.", "#", "##", "######", ">", "---", "***", "___", "===", "=", "--", "```", "~~~", "````", "|", "|x|", "- - -", "* * *",
           "[x]", "[ ]", "+1", "-x", "#hash", ">x", "1.x", "<!--", "{%", "1.", "\\", "&", "_", "~", "`", "!", ":", "[^a]:", "[a]:",
           "** *", "__ _", "_ _ _", "-- -", "**", "__", "* *", "- -", "== =", "\\\\", "x\\", "-|", ":-:", "|-|", "x|", "| -"]
FILL = ["a", "bb", "ccc", "dddd", "eeeee", "ffffff"]


def _hazard(case: dict, note: Note) -> Failure | None:
    words, ctxname, width, semantic = case["words"], case["ctx"], case["width"], case["semantic"]
    ii, si = CONTEXTS[ctxname]
    haz = case["hazard"]
    assert all(w in FILL or w == haz for w in words) and haz in HAZARDS, "domain: hazard case"
    x = ii + " ".join(words) + "\n"
    o = {"width": width, "semantic": semantic, "cleanups": False, "smartquotes": False, "ellipses": False, "list_spacing": "preserve"}
    cin = canon.canon_in(x)[1]
    # construct-then-verify: the input itself must read as one paragraph in the container with these words
    want_words = " ".join(words)
    got_in = _single_para_text(cin, ctxname)
    if got_in is None or got_in.replace("\\", "") != want_words.replace("\\", ""):
        note.label("generator_mismatch")
        return None
    note.nontrivial = True
    note.label("ctx_" + ctxname)
    out = opts.fmt(x, o)
    cout = canon.canon_out(out)[1]
    if cin != cout:
        return Failure(f"hazard:{haz}", f"hazard {haz!r} in {ctxname}: input={x!r} opts(width={width}, semantic={semantic}) output={out!r}\n  in : {cin!r}\n  out: {cout!r}")
    return None


def _single_para_text(c, ctxname):
    try:
        node = c
        if ctxname == "top":
            (p,) = node
        elif ctxname in ("bullet", "ordered"):
            ((_l, _o, _k, ((p,),)),) = node
        elif ctxname == "quote":
            ((_q, (p,)),) = node
        elif ctxname == "quote_bullet":
            ((_q, ((_l, _o, _k, ((p,),)),)),) = node
        elif ctxname == "footnote":
            ((_f, _lab, (p,)),) = node
        if p[0] != "p":
            return None
        inl = p[2]
        if len(inl) != 1 or inl[0][0] != "t":
            return None
        return inl[0][1]
    except (ValueError, TypeError, IndexError):
        return None


def _hazard_sweep(ctx: Ctx):
    idx = 0
    quick = ctx.quick
    for haz in HAZARDS:
        for n in ((3, 5) if quick else (2, 3, 4, 5, 6, 8)):
            for pos in range(0, n):  # position 0: kept only where the input still reads as one paragraph with these words
                for fill_rot in range(2 if quick else 6):
                    words = [FILL[(i + fill_rot) % len(FILL)] for i in range(n)]
                    words[pos] = haz
                    total = len(" ".join(words))
                    for ctxname in CONTEXTS:
                        idx += 1
                        if idx % ctx.nshards != ctx.shard:
                            continue
                        ind = len(CONTEXTS[ctxname][0])
                        for width in range(1, total + ind + 2):
                            for semantic in (False, True):
                                yield {"kind": "hazard", "hazard": haz, "words": words, "ctx": ctxname, "width": width, "semantic": semantic}


# ---------------------------------------------------------------------------------------------------


def _feat(ctx: Ctx, base=None) -> frozenset:
    from vf import docdomain

    return docdomain.features("C01", ctx)


@st.composite
def _doc_case(draw, feat: frozenset):
    text = draw(textgen.doc(feat, depth=2, hi=5)).lstrip("\n")
    first = next((l for l in text.split("\n") if l.strip()), "")
    if first.strip() == "---":
        text = "x\n\n" + text
    return {"kind": "doc", "text": text, "width": draw(opts.width_strategy()), "semantic": draw(st.booleans())}


def shard_work(ctx: Ctx) -> None:
    import os

    only = os.environ.get("VERIF_ONLY", "")
    feat = _feat(ctx)
    if only in ("", "documents"):
        ctx.run_hypothesis("documents", _doc_case(feat), ctx.n(6000, 300000))
    if only in ("", "hazard"):
        ctx.run_cases("hazard_sweep", _hazard_sweep(ctx), exhaustive=True)


EXHAUSTIVE_IF = {"quick": ["hazard_sweep"], "thorough": ["hazard_sweep"]}
