"""C10 — cleanups and list-spacing options do exactly what they say and nothing else."""

from __future__ import annotations

import re

from hypothesis import strategies as st

from vf import canon, docdomain, opts, textgen
from vf.core import Ctx, Failure, Note

ID = "C10"
LEVEL = "exploration"
TECHNIQUE = "Hypothesis documents rich in headings and nested lists x {cleanups} x {preserve, loose, tight}; differential against the option-off output with an independent reference rewrite on the canonical tree"
RULE = (
    "cases = generated documents (shared grammar plus headings with every emphasis mix: whole-bold, bold+text, bold-italic in both nestings, two "
    "bolds, bold link, bold code; lists nested <= 3, in quotes, items with 1-3 blocks, tight and loose sources, single-item lists) x other options. "
    "Cleanups: canon(f(x,on)) == unbold(canon(f(x,off))) with unbold a separate rewrite on the canonical tuples, and all non-heading output lines "
    "byte-identical. List spacing: with blank lines removed the outputs of all three modes are identical; canonical trees equal; re-read "
    "tightness: loose => every list with >= 2 items is loose, tight => every list whose items each hold one block is tight, preserve => every "
    "list is as in the input. Non-trivial = a whole-bold heading, or a list with >= 2 items whose tightness differs between two modes; distinct "
    "by SHA-1 of the case."
)
LEVEL_TEXT = (
    "Generated-input exploration with differential oracles between option settings and an independent model of the two transformations on "
    "the canonical tree; features that hit recorded known findings are off (listed in the evidence)."
)
LEVEL_NOTE = "Outputs are re-read with flowmark's own parser (tightness is Marko's notion of a tight list)."
ASSUMPTIONS = ["documents come from the shared grammar restricted to the feature set in vf/docdomain.py plus the heading forms listed in the rule"]
BUDGET = {"quick": 90, "thorough": 1500}

HEADINGS = ["__Underscore bold__", "___under bold italic___", "**Whole bold**", "**a** and text", "***bold italic***", "_**nested**_", "**_other nesting_**", "**a** **b**", "**[link](u)**", "**`code`**", "plain",
            "**bold** #", "*italic only*", "**a**b", "~~**x**~~", "**Bold with \"quotes\"...**", "**中文**"]


def _show(s: str, n: int = 600) -> str:
    r = repr(s)
    return r if len(r) <= n else r[:n] + "…"


def unbold(node):
    """Reference model of the cleanup on canonical tuples."""
    if isinstance(node, tuple):
        if node and node[0] == "h":
            inl = node[2]
            if len(inl) == 1 and inl[0][0] == "strong":
                return ("h", node[1], _merge(inl[0][1]))
            if len(inl) == 1 and inl[0][0] == "em" and len(inl[0][1]) == 1 and inl[0][1][0][0] == "strong":
                return ("h", node[1], (("em", _merge(inl[0][1][0][1])),))
            return node
        return tuple(unbold(c) for c in node)
    return node


def _merge(inl):
    return inl


_HEADING_LINE = re.compile(r"^[ \t>]*(?:(?:[-*+]|\d{1,9}[.)])[ \t]+)*(?:\[[ xX]\][ \t]+)?#{1,6}(?:[ \t]|$)")
_BLANK = re.compile(r"^[ \t>]*$")


def _lists(node, out):
    if isinstance(node, tuple):
        if node and node[0] == "list":
            items = node[3]
            tight = node[4][1]
            out.append((len(items), all(len(it) == 1 for it in items), tight))
        for c in node:
            _lists(c, out)
    return out


def _ends_with_heading(b) -> bool:
    """The block's last line is a heading (directly, or as the end of a nested list, quote or alert)."""
    if not isinstance(b, tuple) or not b:
        return False
    if b[0] == "h":
        return True
    if b[0] == "list":
        return bool(b[3]) and bool(b[3][-1]) and _ends_with_heading(b[3][-1][-1])
    if b[0] in ("quote", "alert"):
        blocks = b[-1]
        return bool(blocks) and _ends_with_heading(blocks[-1])
    return False


def _tight_list_with_heading_then_block(node) -> bool:
    """The input has a tight list with an item in which a heading (possibly as the end of a nested list or quote) is directly
    followed by another block."""
    if isinstance(node, tuple):
        if node and node[0] == "list" and node[4][1]:
            for it in node[3]:
                if any(_ends_with_heading(b) for b in it[:-1]):
                    return True
        return any(_tight_list_with_heading_then_block(c) for c in node)
    return False


def check_case(case: dict, note: Note) -> Failure | None:
    x = case["text"]
    base = dict(case["opts"])
    kind = case["kind"]
    if kind == "cleanups":
        off = opts.fmt(x, dict(base, cleanups=False))
        on = opts.fmt(x, dict(base, cleanups=True))
        c_off, c_on = canon.canon_out(off), canon.canon_out(on)
        want = unbold(c_off)
        note.nontrivial = want != c_off
        if note.nontrivial:
            note.label("whole_bold_heading")
        if c_on != want:
            d = canon.first_diff(want, c_on)
            return Failure("cleanups-tree", f"input={_show(x)}\nopts={base}\noff={_show(off)}\non ={_show(on)}\nfirst difference (model vs on) at {d[0]}: {_show(repr(d[1]), 200)} vs {_show(repr(d[2]), 200)}")
        a = [l for l in off.split("\n") if not _HEADING_LINE.match(l)]
        b = [l for l in on.split("\n") if not _HEADING_LINE.match(l)]
        if a != b:
            d = next((p for p in zip(a, b) if p[0] != p[1]), (a[len(b):], b[len(a):]))
            return Failure("cleanups-touches-non-heading", f"input={_show(x)}\nopts={base}\nnon-heading lines differ: {d!r}\noff={_show(off)}\non ={_show(on)}")
        return None
    if kind == "spacing":
        outs = {m: opts.fmt(x, dict(base, list_spacing=m)) for m in ("preserve", "loose", "tight")}
        # the mode given as a plain string (as a config file or an API caller provides it) means the same
        from flowmark.linewrapping.markdown_filling import fill_markdown

        for m in ("preserve", "loose", "tight"):
            kw = {k: v for k, v in base.items() if k != "list_spacing"}
            as_str = fill_markdown(x, list_spacing=m, **kw)  # type: ignore[arg-type]
            if as_str != outs[m]:
                return Failure("mode-as-plain-string-differs", f"input={_show(x)}\nopts={base}\nlist_spacing={m!r} as str: {_show(as_str)}\nas enum: {_show(outs[m])}")
        cin = canon.canon_in(x, tight=True)[1]
        trees = {m: canon.canon_out(o_, tight=True)[1] for m, o_ in outs.items()}
        plain = {m: canon.canon_out(o_)[1] for m, o_ in outs.items()}
        neutral = opts.fmt(x, dict(base, list_spacing="preserve", cleanups=False, smartquotes=False, ellipses=False))
        if canon.canon_in(x)[1] != canon.canon_out(neutral)[1]:
            note.label("skipped_output_misread")  # a C01 matter; the relation between the modes is not meaningful then
            return None
        lists = {m: _lists(t, []) for m, t in trees.items()}
        lin = _lists(cin, [])
        note.nontrivial = any(n >= 2 for n, _s, _t in lin) and (outs["loose"] != outs["tight"])
        nob = {m: [l for l in o_.split("\n") if not _BLANK.match(l)] for m, o_ in outs.items()}
        for m in ("loose", "tight"):
            if nob[m] != nob["preserve"]:
                d = next((p for p in zip(nob[m], nob["preserve"]) if p[0] != p[1]), None)
                return Failure("spacing-changes-more-than-blank-lines", f"input={_show(x)}\nopts={base}\nmode {m} vs preserve differ beyond blank lines: {d!r}\n{m}={_show(outs[m])}\npreserve={_show(outs['preserve'])}")
            if plain[m] != plain["preserve"]:
                return Failure("spacing-changes-structure", f"input={_show(x)}\nopts={base}\nmode {m} reads back as a different document than preserve\n{m}={_show(outs[m])}\npreserve={_show(outs['preserve'])}")
        for n, single, tight in lists["loose"]:
            if n >= 2 and tight:
                return Failure("loose-mode-leaves-tight-list", f"input={_show(x)}\nopts={base}\nloose={_show(outs['loose'])}")
        for n, single, tight in lists["tight"]:
            if single and not tight:
                return Failure("tight-mode-leaves-loose-list", f"input={_show(x)}\nopts={base}\na list whose items each hold one block is still loose\ntight={_show(outs['tight'])}", {"lists": lists["tight"]})
        if [(n, t) for n, _s, t in lists["preserve"]] != [(n, t) for n, _s, t in lin]:
            return Failure("preserve-changes-tightness", f"input={_show(x)}\nopts={base}\ninput lists (items, tight)={[(n, t) for n, _s, t in lin]}\noutput lists={[(n, t) for n, _s, t in lists['preserve']]}\npreserve={_show(outs['preserve'])}",
                           {"tight_multiblock_input": _tight_list_with_heading_then_block(cin)})
        return None
    raise AssertionError(kind)


def _sig_tight_multiblock(case: dict, f: Failure) -> bool:
    """Known finding (same root cause as C02 tight-list-flips-loose): the input has a TIGHT list with an item that holds
    several blocks (possible when a heading is directly followed by text); flowmark separates those blocks by a blank line,
    which makes the list loose."""
    return f.bucket == "preserve-changes-tightness" and bool(f.data.get("tight_multiblock_input"))


DECOMPOSE_KEY = "text"  # several recorded findings in one document: see core.sig_hit

SIGS = {"tight_list_multiblock_item": _sig_tight_multiblock}


@st.composite
def _nested_list(draw, depth: int, indent: str = ""):
    """Lines of a list whose tightness is chosen per level (a nested list directly follows its item's text, so that it does
    not by itself make the parent loose); some items hold a second paragraph, a code block or a quote."""
    ordered = draw(st.booleans())
    tight = draw(st.booleans())
    n = draw(st.integers(1, 4))
    bullet = draw(st.sampled_from(["-", "*", "+"]))
    start = draw(st.sampled_from([1, 1, 3, 10]))
    lines: list[str] = []
    for i in range(n):
        marker = f"{start + i}." if ordered else bullet
        pad = " " * (len(marker) + 1)
        if lines and not tight:
            lines.append("")
        lines.append(indent + marker + " " + draw(st.sampled_from(["alpha", "item text", "**b** words here", "x `c` y", "done."])))
        extra = draw(st.integers(0, 9))
        if extra == 0:
            lines += ["", indent + pad + "second paragraph"]
        elif extra == 1:
            lines += ["", indent + pad + "```", indent + pad + "code", indent + pad + "```"]
        elif extra == 2:
            lines += [indent + pad + "> quoted"]
        elif extra == 3:
            lines[-1] = indent + marker + " > # Quoted heading"  # the item is a quote that ends with a heading
        elif extra == 4:
            lines[-1] = indent + marker + " ## Heading item"
        if depth > 0 and draw(st.integers(0, 2)) == 0:
            lines += draw(_nested_list(depth - 1, indent + pad))
    return lines


@st.composite
def _doc(draw, feat):
    blocks = []
    for _ in range(draw(st.integers(0, 3))):
        lvl = draw(st.integers(1, 4))
        h = draw(st.sampled_from(HEADINGS))
        form = draw(st.integers(0, 3))
        if form == 0:
            blocks.append("#" * lvl + " " + h)
        elif form == 1:
            blocks.append(h + "\n" + ("===" if lvl == 1 else "---"))
        elif form == 2:
            blocks.append("- " + "#" * lvl + " " + h)
        else:
            blocks.append("> " + "#" * lvl + " " + h)
    body = draw(textgen.doc(feat if draw(st.integers(0, 3)) else frozenset(feat - {"emph", "link"}), depth=3, hi=4))
    for _ in range(draw(st.integers(0, 2))):
        ls = draw(_nested_list(2))
        if draw(st.integers(0, 4)) == 0:
            ls = ["> " + l if l else ">" for l in ls]
        blocks.append("\n".join(ls))
    parts = blocks + [body]
    order = draw(st.permutations(parts))
    return "\n\n".join(p.strip("\n") for p in order) + "\n"


@st.composite
def _case(draw, feat, kind):
    o = draw(opts.md_options())
    return {"kind": kind, "text": draw(_doc(feat)), "opts": o}


def shard_work(ctx: Ctx) -> None:
    feat = docdomain.features("C10", ctx)
    ctx.run_hypothesis("cleanups", _case(feat, "cleanups"), ctx.n(3000, 100000))
    ctx.run_hypothesis("list_spacing", _case(feat, "spacing"), ctx.n(4000, 150000))
