"""C06 — template tags and other atomic constructs are never split or displaced."""

from __future__ import annotations

import re

from hypothesis import strategies as st

from vf import canon, opts
from vf.core import Ctx, Failure, Note

ID = "C06"
LEVEL = "exploration"
TECHNIQUE = "Hypothesis token sequences with ground-truth separators through both wrappers at every width (exhaustive 1..N for short sequences) + tag-delimited block documents; atom-integrity and separator-class oracles"
RULE = (
    "wrapper level: sequences of words and atoms (template tags of the three kinds, paired tags, HTML comments, inline HTML with quoted "
    "attributes, code spans, links/images) with a ground-truth separator between neighbours in {space, adjacent (tags only), newline}; every width "
    "1..len for short sequences and random widths for long ones; both wrappers; four indent pairs. Document level: a tag/comment alone on an "
    "unindented line between paragraphs; tag-delimited blocks enclosing prose, lists and tables, with and without blank lines in the source. "
    "Non-trivial = an atom wider than the remaining line width, or an adjacent pair, or a tag-delimited block; distinct by SHA-1 of the case."
)
LEVEL_TEXT = (
    "Generated-input exploration with exhaustive widths for short sequences: every atom must appear intact on one line, in order, with the "
    "separator class to its neighbours preserved; standalone tag lines stay standalone and unindented, enclosed lists/tables survive a re-read "
    "and are set off by exactly one blank line. Known findings are excluded by construction (listed) and pinned."
)
LEVEL_NOTE = "Atoms and separators are the generator's ground truth; enclosed lists/tables are compared through flowmark's parser."
ASSUMPTIONS = [
    "adjacency (no separator) is generated only between two template tags / comments, the documented case",
    "atoms contain single inner spaces only (inner whitespace runs may be collapsed by design)",
]
BUDGET = {"quick": 90, "thorough": 1500}

WORDS = ["alpha", "beta", "it", "a", "word", "longerword", "x", "42", "of", "ok,"]
ENDERS = ["end.", "done!", "really?"]
ATOMS = {
    "tag": ["{% tag %}", "{% /tag %}", '{% field kind="string" label="A b c" %}', "{%- trim -%}", "{% if x > 3 %}", "{% include 'a b.html' %}"],
    "var": ["{{ var }}", "{{ a | f('x y') }}", "{{ user.name | default(\"no one\") }}"],
    "jcomment": ["{# a comment here #}", "{# x #}"],
    "hcomment": ["<!-- a comment here -->", "<!--c-->", "<!-- /f -->", "<!-- f:x a=\"1 2\" -->"],
    "html": ["<b>", "</b>", '<span class="a b">', "<br/>", '<a href="x y" title=\'t u\'>', "</span>"],
    "code": ["`code`", "`a b c`", "``a ` b``", "`<b> x`", "`[x] (y)`", "`{% not a tag %}`"],
    "link": ["[link text here](http://example.com/a)", '[a](u "t i t")', "![img alt](http://e.x/i.png)", "[ref text][ref]", "[*em x* `c d`](u)", "[^note]"],
}
ATOMS_WITH_SENT_END = {
    "code": ["`the end. Of code`", "`ok. go`"], "link": ["[read this. Now](u)", '[a](u "Title. Two")'], "tag": ['{% note text="Stop. Go" %}'],
    "hcomment": ["<!-- first. Second -->"], "html": ['<span title="One. Two">'],
}
TAGLIKE = ("tag", "var", "jcomment", "hcomment")
INDENTS = [("", ""), ("- ", "  "), ("> ", "> "), ("1. ", "   ")]


def _show(s, n: int = 500) -> str:
    r = repr(s)
    return r if len(r) <= n else r[:n] + "…"


def check_case(case: dict, note: Note) -> Failure | None:
    if case["kind"] == "seq":
        return _check_seq(case, note)
    if case["kind"] == "block":
        return _check_block(case, note)
    raise AssertionError(case["kind"])


def _check_seq(case: dict, note: Note) -> Failure | None:
    from flowmark import line_wrap_by_sentence, line_wrap_to_width

    toks, seps, width, sem, ii, si = case["toks"], case["seps"], case["width"], case["semantic"], case["ii"], case["si"]
    assert len(seps) == len(toks) - 1 and width >= 1
    for (k, a), (k2, _a2), sp in zip(toks, toks[1:], seps):
        assert sp in (" ", "", "\n")
        assert sp != "" or (k in TAGLIKE and k2 in TAGLIKE), "domain: adjacency only between tags"
    for k, a in toks:
        assert a and "\n" not in a and "  " not in a
    text = "".join(a + (seps[i] if i < len(seps) else "") for i, (k, a) in enumerate(toks))
    wr = (line_wrap_by_sentence if sem else line_wrap_to_width)(width=width, is_markdown=True)
    out = wr(text, ii, si)
    note.nontrivial = any(k != "w" and len(a) > width - len(si) for k, a in toks) or "" in seps
    if "" in seps:
        note.label("adjacent_pair")
    if sem:
        note.label("semantic")
    what = f"{'line_wrap_by_sentence' if sem else 'line_wrap_to_width'}(width={width}) on {_show(text)} with indents {ii!r}/{si!r} -> {_show(out)}"
    pos = 0
    for i, (k, a) in enumerate(toks):
        j = out.find(a, pos)
        if j < 0:
            if k == "w":
                # a word may carry a protective backslash at a line start
                esc = [m for m in (r"\\" + re.escape(a), re.escape(a[:-1]) + r"\\" + re.escape(a[-1:])) if re.search(m, out[pos:])]
                if esc:
                    m = re.search(esc[0], out[pos:])
                    pos = pos + m.end()
                    continue
                return Failure("word-lost", f"{what}: word {a!r} not found in order")
            return Failure(f"atom-split-or-altered:{k}", f"{what}: atom {a!r} does not appear intact on one line", {"kind": k, "semantic": sem})
        if i > 0:
            between = out[pos:j]
            want = seps[i - 1]
            if want == "" and between != "":
                return Failure("adjacent-atoms-separated", f"{what}: {toks[i - 1][1]!r} and {a!r} were adjacent, now separated by {between!r}", {"between": between, "width": width})
            if want != "" and between == "":
                return Failure("separated-atoms-joined", f"{what}: {toks[i - 1][1]!r} and {a!r} were separated by {want!r}, now adjacent", {"prev": toks[i - 1][0], "cur": k})
            if want != "" and between.strip(" \n>") != "" and not set(between) <= set(" \n>\\-0123456789.*#"):
                return Failure("text-between-atoms-changed", f"{what}: between {toks[i - 1][1]!r} and {a!r}: {between!r}")
        pos = j + len(a)
    return None


TAGPAIRS = [("{% field %}", "{% /field %}"), ('{% field kind="select" id="a b" %}', "{% /field %}"), ("<!-- f:x -->", "<!-- /f:x -->"), ("{# region #}", "{# /region #}"),
            ("{% if a %}", "{% endif %}"), ("<!-- wp:list -->", "<!-- /wp:list -->")]
INNER = {
    "list": ["- item 1\n- item 2", "1. one\n2. two\n3. three", "- [ ] todo\n- [x] done", "* a\n* b with more words than fit on a rather narrow line for sure"],
    "table": ["| a | b |\n|---|---|\n| 1 | 2 |", "| x |\n| :-: |\n| y |"],
    "prose": ["Just a paragraph of text inside the tags. With two sentences!", "one\ntwo"],
}


def _check_block(case: dict, note: Note) -> Failure | None:
    o = case["opts"]
    op, cl = case["open"], case["close"]
    inner, kind = case["inner"], case["inner_kind"]
    gap1, gap2 = case["gap_before"], case["gap_after"]
    # tag lines may carry trailing blanks in the source (invisible to an author); the output line is compared right-stripped
    assert (op, cl) in TAGPAIRS and inner in INNER[kind] and gap1 in ("\n", "\n\n") and gap2 in ("\n", "\n\n"), "outside the domain"
    t1, t2 = case.get("open_trail", ""), case.get("close_trail", "")
    assert t1 in ("", " ", "\t", "  ") and t2 in ("", " ", "\t", "  ") and not (kind == "prose" and t1 == "  "), "outside the domain"
    mid_tag = case.get("middle")  # e.g. "{% else %}" between two enclosed blocks
    if mid_tag:
        second = case["inner2"]
        x = case["before"] + op + t1 + gap1 + inner + gap2 + mid_tag + t1 + gap1 + second + gap2 + cl + t2 + case["after"]
    else:
        x = case["before"] + op + t1 + gap1 + inner + gap2 + cl + t2 + case["after"]
    out = opts.fmt(x, o)
    lines = [l.rstrip(" \t") for l in out.split("\n")]
    if t1 or t2:
        note.label("tag_line_trailing_blank")
    note.nontrivial = True
    note.label("block_" + kind)
    if gap1 == "\n" or gap2 == "\n":
        note.label("no_blank_line_in_source")
    what = f"input={_show(x)}\nopts={o}\noutput={_show(out)}"
    for t in (op, cl):
        if t not in lines:
            return Failure("standalone-tag-line-lost", f"tag line {t!r} is not a line of its own (unindented) in the output\n{what}", {"inner_kind": kind})
    i1, i2 = lines.index(op), len(lines) - 1 - lines[::-1].index(cl)
    if i2 <= i1:
        return Failure("tag-lines-reordered", what)
    mid = lines[i1 + 1:i2]
    if mid_tag:
        note.label("middle_tag")
        if mid_tag not in mid:
            return Failure("standalone-tag-line-lost", f"middle tag line {mid_tag!r} is not a line of its own (unindented) in the output\n{what}", {"inner_kind": kind})
        k = mid.index(mid_tag)
        for part, src in ((mid[:k], inner), (mid[k + 1:], case["inner2"])):
            if len(part) < 3 or part[0] != "" or part[-1] != "" or part[1] == "" or part[-2] == "":
                return Failure("blank-line-between-tag-and-block", f"an enclosed {kind} is not set off from the tag lines by exactly one blank line\n{what}", {"inner_kind": kind})
            if canon.canon_out("\n".join(part[1:-1]) + "\n")[1] != canon.canon_in(src + "\n")[1]:
                return Failure("enclosed-block-changed", f"an enclosed {kind} reads back differently\n{what}", {"inner_kind": kind})
        return None
    if kind in ("list", "table"):
        if len(mid) < 3 or mid[0] != "" or mid[-1] != "" or mid[1] == "" or mid[-2] == "":
            return Failure("blank-line-between-tag-and-block", f"the enclosed {kind} is not set off from the tag lines by exactly one blank line\n{what}", {"inner_kind": kind})
        got = canon.canon_out("\n".join(mid[1:-1]) + "\n")[1]
        want = canon.canon_in(inner + "\n")[1]
        if got != want:
            return Failure("enclosed-block-changed", f"the enclosed {kind} reads back differently\n got {got!r}\nwant {want!r}\n{what}", {"inner_kind": kind})
    else:
        body = " ".join(" ".join(mid).split())
        if body != " ".join(inner.split()):
            return Failure("enclosed-prose-changed", f"the enclosed text changed: {body!r}\n{what}")
    return None


# ---------------------------------------------------------------------------------------------------
# known-finding signatures


def _sig_semantic_splits_atoms(case: dict, f: Failure) -> bool:
    """Semantic mode: the sentence splitter works on whitespace-separated words before atomic constructs are protected, so an
    atom that contains a sentence end is broken there."""
    if case["kind"] != "seq" or not case["semantic"] or not f.bucket.startswith("atom-split-or-altered"):
        return False
    return any(re.search(r"[A-Za-z]{2}[.?!]['\")]?( |$)", a) and " " in a for k, a in case["toks"] if k != "w")


def _sig_space_between_tags(case: dict, f: Failure) -> bool:
    """An authored single space between two tags is removed (the space that is put between adjacent tags for tokenizing is
    removed again without knowing whether it was inserted)."""
    return case["kind"] == "seq" and f.bucket == "separated-atoms-joined" and f.data.get("prev") in TAGLIKE and f.data.get("cur") in TAGLIKE


def _sig_adjacent_unpaired_wrap(case: dict, f: Failure) -> bool:
    """Two adjacent tags that do not form an open/close pair are separate tokens; at a narrow width a line break may fall
    between them."""
    return case["kind"] == "seq" and f.bucket == "adjacent-atoms-separated" and "\n" in f.data.get("between", "")


SIGS = {
    "semantic_splits_atoms_with_sentence_end": _sig_semantic_splits_atoms,
    "authored_space_between_tags_removed": _sig_space_between_tags,
    "adjacent_unpaired_tags_wrapped": _sig_adjacent_unpaired_wrap,
}


# ---------------------------------------------------------------------------------------------------


def _atom_pool(disabled: frozenset):
    pool = [(k, a) for k, v in ATOMS.items() for a in v]
    if "sent_end_in_atom" not in disabled:
        pool += [(k, a) for k, v in ATOMS_WITH_SENT_END.items() for a in v]
    return pool


@st.composite
def _seq_case(draw, disabled: frozenset, exhaustive_width: bool):
    pool = _atom_pool(disabled)
    word = st.sampled_from(WORDS + ENDERS).map(lambda w: ("w", w))
    tok = st.one_of(word, word, st.sampled_from(pool))
    n = draw(st.integers(1, 6 if exhaustive_width else 16))
    toks = [list(draw(tok)) for _ in range(n)]
    seps = []
    for (k, _a), (k2, _b) in zip(toks, toks[1:]):
        sp = draw(st.sampled_from([" ", " ", " ", "", "\n"]))
        if sp == "" and not (k in TAGLIKE and k2 in TAGLIKE):
            sp = " "
        if sp == "" and "tag_adjacency" in disabled:
            sp = " "
        if sp == " " and k in TAGLIKE and k2 in TAGLIKE and "space_between_tags" in disabled:
            toks[len(seps) + 1] = ["w", "and"]  # avoid "tag SPACE tag": recorded known finding
            k2 = "w"
        seps.append(sp)
    # re-validate separators after substitutions
    seps = [(" " if sp == "" and not (a[0] in TAGLIKE and b[0] in TAGLIKE) else sp) for sp, a, b in zip(seps, toks, toks[1:])]
    ii, si = draw(st.sampled_from(INDENTS))
    total = sum(len(a) for _k, a in toks) + len(toks)
    width = draw(st.integers(1, max(2, total + 2))) if exhaustive_width else draw(st.integers(1, 90))
    return {"kind": "seq", "toks": toks, "seps": seps, "width": width, "semantic": draw(st.booleans()), "ii": ii, "si": si}


@st.composite
def _block_case(draw):
    op, cl = draw(st.sampled_from(TAGPAIRS))
    kind = draw(st.sampled_from(["list", "table", "prose", "list", "table"]))
    inner = draw(st.sampled_from(INNER[kind]))
    from vf import opts as vopts

    extra = {}
    if draw(st.integers(0, 2)) == 0:
        # two trailing spaces before prose are a Markdown hard break (the tag line is then part of a paragraph): not generated
        extra["open_trail"] = draw(st.sampled_from([" ", "\t", "  ", ""] if kind != "prose" else [" ", "\t", ""]))
        extra["close_trail"] = draw(st.sampled_from([" ", "\t", "  ", ""]))
    if kind in ("list", "table") and draw(st.integers(0, 3)) == 0:
        extra["middle"] = draw(st.sampled_from(["{% else %}", "<!-- else -->", "{# or #}"]))
        extra["inner2"] = draw(st.sampled_from(INNER[kind]))
    return {
        **extra,
        "kind": "block", "open": op, "close": cl, "inner": inner, "inner_kind": kind,
        "gap_before": draw(st.sampled_from(["\n", "\n\n"])), "gap_after": draw(st.sampled_from(["\n", "\n\n"])),
        "before": draw(st.sampled_from(["", "Intro paragraph.\n\n", "# Title\n\n"])), "after": draw(st.sampled_from(["\n", "\n\nOutro paragraph.\n", "\n\n## Next\n"])),
        "opts": draw(vopts.md_options()),
    }


def shard_work(ctx: Ctx) -> None:
    dis = frozenset(ctx.disabled)
    ctx.run_hypothesis("short_sequences_every_width", _seq_case(dis, True), ctx.n(12000, 400000))
    ctx.run_hypothesis("long_sequences", _seq_case(dis, False), ctx.n(6000, 200000))
    ctx.run_hypothesis("tag_delimited_blocks", _block_case(), ctx.n(3000, 80000))
