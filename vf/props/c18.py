"""C18 — gitignore handling agrees with git (differential oracle: git itself)."""

from __future__ import annotations

import fnmatch
import os
import shutil
import subprocess
from pathlib import Path

from hypothesis import strategies as st

from vf import fstree
from vf.cliutil import Scratch, run_cli
from vf.core import Ctx, Failure, HarnessError, Note

ID = "C18"
LEVEL = "exploration"
TECHNIQUE = "Hypothesis-generated directory trees and .gitignore files drawn from the pattern language; differential against `git ls-files -co --exclude-standard` in the same tree"
RULE = (
    "cases = generated trees (depth <= 4, no symlinks, no default-excluded names) with .gitignore files at any level whose lines come from a "
    "grammar of the pattern language (basename, *, ?, [..], anchored /x, multi-segment a/b, a/*/c, **/x, a/**, directory-only x/, negations of "
    "each, comments, blank lines, escaped #), names taken from the tree so that rules hit; resolver with exclude=[], no size limit. Expected "
    "list = git ls-files -co --exclude-standard filtered to *.md in a fresh isolated repository. Non-trivial = git ignores at least one and "
    "keeps at least one .md file and some rule is not a plain basename; distinct by SHA-1 of the case."
)
LEVEL_TEXT = (
    "Generated-input differential testing with git itself as the oracle on every generated tree (set equality in both directions), plus "
    "the --no-respect-gitignore relation (result equals the result with all .gitignore files deleted). ~800 trees quick, ~20k thorough."
)
LEVEL_NOTE = "Trusts git 2.39 as the definition of gitignore semantics; the repository is created fresh with HOME/XDG pointing to an empty directory and no system or global excludes."
ASSUMPTIONS = [
    "git is available at /usr/bin/git (absent git is a harness error, exit 2)",
    "file names are ASCII without newlines; matching is case-sensitive (core.ignoreCase=false on this file system)",
]
BUDGET = {"quick": 90, "thorough": 1500}
CASE_TIMEOUT_S = 60

GIT = shutil.which("git") or "/usr/bin/git"


def git_listing(root: Path, home: Path) -> set[str]:
    env = {"PATH": os.environ.get("PATH", "/usr/bin:/bin"), "HOME": str(home), "XDG_CONFIG_HOME": str(home), "GIT_CONFIG_NOSYSTEM": "1", "LC_ALL": "C",
           "GIT_CEILING_DIRECTORIES": str(root.parent)}
    r = subprocess.run([GIT, "init", "-q", str(root)], env=env, capture_output=True, text=True)
    if r.returncode != 0:
        raise HarnessError(f"git init failed: {r.stderr}")
    r = subprocess.run([GIT, "-C", str(root), "-c", "core.excludesFile=", "-c", "core.quotePath=false", "ls-files", "-z", "-co", "--exclude-standard"],
                       env=env, capture_output=True)
    if r.returncode != 0:
        raise HarnessError(f"git ls-files failed: {r.stderr.decode()[:300]}")
    return {p for p in r.stdout.decode().split("\0") if p}


def _resolve(root: Path, respect: bool) -> set[str]:
    from flowmark.file_resolver import FileResolver, FileResolverConfig

    cfg = FileResolverConfig(exclude=[], files_max_size=0, respect_gitignore=respect)
    return {str(p.relative_to(root.resolve())) for p in FileResolver(cfg).resolve([str(root)])}


def check_case(case: dict, note: Note) -> Failure | None:
    if not Path(GIT).exists():
        raise HarnessError("git not found")
    tree = case["tree"]
    ignores = case["gitignores"]  # {dir: [lines]}
    with Scratch("vf_c18_") as top:
        root = top / "root"
        root.mkdir()
        home = top / "home"
        home.mkdir()
        files = {((d + "/") if d else "") + ".gitignore": "\n".join(lines) + "\n" for d, lines in ignores.items()}
        fstree.materialise(root, top / "outside", tree, files)
        shutil.rmtree(top / "outside", ignore_errors=True)
        got = _resolve(root, True)
        no_gi = _resolve(root, False)
        # one resolver instance used for a sub-directory first and the whole tree afterwards (its caches must not
        # carry rules from one traversal root into another)
        subdirs = sorted(e[1] for e in tree if e[0] == "dir")
        if subdirs:
            from flowmark.file_resolver import FileResolver, FileResolverConfig

            fr = FileResolver(FileResolverConfig(exclude=[], files_max_size=0))
            sub = root / subdirs[len(subdirs) // 2]
            first = {str(p.relative_to(root.resolve())) for p in fr.resolve([str(sub)])}
            second = {str(p.relative_to(root.resolve())) for p in fr.resolve([str(root)])}
            fresh_sub = {str(p.relative_to(root.resolve())) for p in FileResolver(FileResolverConfig(exclude=[], files_max_size=0)).resolve([str(sub)])}
            if second != got or first != fresh_sub:
                return Failure("resolver-reuse-changes-result", f"tree={tree}\n.gitignore files={ignores}\nsame resolver, {sub.name} first then the whole tree: {sorted(second)}\nfresh resolver: {sorted(got)}\nsub-directory: reused {sorted(first)} fresh {sorted(fresh_sub)}")
        listed = git_listing(root, home)
        shutil.rmtree(root / ".git", ignore_errors=True)
        want = {p for p in listed if fnmatch.fnmatchcase(p.split("/")[-1], "*.md")}
        all_md = {str(p.relative_to(root)) for p in root.rglob("*.md") if p.is_file()}
        rules = [l for ls in ignores.values() for l in ls if l.strip() and not l.lstrip().startswith("#")]
        fancy = any(("/" in r.rstrip("/")) or r.startswith("!") or "**" in r for r in rules)
        note.nontrivial = bool(all_md - want) and bool(want) and fancy
        for r in rules:
            note.label("rule_" + _shape(r))
        desc = f"tree={[e for e in tree if e[0] != 'dir']}\n.gitignore files={ignores}"
        if got != want:
            extra, miss = sorted(got - want), sorted(want - got)
            shapes = sorted({_shape(r) for r in rules})
            return Failure("disagrees-with-git", f"{desc}\nflowmark lists but git ignores: {extra}\ngit keeps but flowmark omits: {miss}\nrule shapes: {shapes}",
                           {"shapes": shapes, "n_files": len(ignores)})
        # --no-respect-gitignore: no influence at all
        for p in root.rglob(".gitignore"):
            p.unlink()
        plain = _resolve(root, True)
        if no_gi != plain or no_gi != all_md:
            return Failure("no-respect-gitignore-still-influenced", f"{desc}\nwith respect_gitignore=False: {sorted(no_gi)}\nwithout any .gitignore: {sorted(plain)}\nall *.md: {sorted(all_md)}")
    return None


def _shape(rule: str) -> str:
    r = rule.strip()
    neg = r.startswith("!")
    if neg:
        r = r[1:]
    if r.startswith("\\"):
        base = "escaped"
    elif "**" in r:
        base = "doublestar"
    elif r.startswith("/"):
        base = "anchored"
    elif "/" in r.rstrip("/"):
        base = "multiseg"
    elif r.endswith("/"):
        base = "dironly"
    elif any(c in r for c in "*?["):
        base = "wildcard"
    else:
        base = "basename"
    return ("neg_" if neg else "") + base


SIMPLE_SHAPES = {"basename", "wildcard", "dironly", "escaped"}


def _sig_dir_doublestar(case: dict, f: Failure) -> bool:
    """Known finding: a rule 'dir/**' (with or without '!') is treated as matching the directory itself."""
    if f.bucket != "disagrees-with-git":
        return False
    return any(l.strip().rstrip().endswith("/**") for ls in case["gitignores"].values() for l in ls)


SIGS = {"gitignore_dir_doublestar": _sig_dir_doublestar}


@st.composite
def _case(draw, disabled: frozenset):
    tree = draw(fstree.tree_spec(dirnames=fstree.PLAIN_DIRNAMES, filenames=["a.md", "b.md", "c.md", "x1.md", "x2.md", "README.md", "n.txt", "#x.md", "d c.md"],
                                 symlinks=False, sizes=(5,)))
    dirs = [e[1] for e in tree if e[0] == "dir"]
    files = [e[1] for e in tree if e[0] == "file"]
    if not files:
        tree.append(["file", "a.md", 5])
        files = ["a.md"]
    simple_only = "fancy_patterns" in disabled

    def rule_for(at: str):
        below_files = [f for f in files if (f.startswith(at + "/") if at else True)]
        below_dirs = [d for d in dirs if (d.startswith(at + "/") if at else True)]
        rel = lambda p: p[len(at) + 1:] if at else p  # noqa: E731
        cands = []
        if below_files:
            f = rel(draw(st.sampled_from(below_files)))
            base = f.split("/")[-1]
            cands += [base, "*.md", base[0] + "*.md", "?" + base[1:], "[ab]*.md", "x?.md"]
            if base.startswith("#"):
                cands += ["\\" + base]
            if not simple_only:
                cands += ["/" + f, f, "**/" + base, "/" + base]
                if "/" in f:
                    segs = f.split("/")
                    cands += [segs[0] + "/*/" + base if len(segs) > 2 else segs[0] + "/*.md", "*/" + base]
                    if "dir_doublestar" not in disabled:
                        cands += [segs[0] + "/**"]
        if below_dirs:
            d = rel(draw(st.sampled_from(below_dirs)))
            name = d.split("/")[-1]
            cands += [name + "/", name]
            if not simple_only:
                cands += ["/" + d + "/", d + "/", "**/" + name + "/"]
                if "dir_doublestar" not in disabled:
                    cands += [d + "/**"]
        cands += ["# comment", "", "*.txt"]
        r = draw(st.sampled_from(cands))
        if not simple_only and r and not r.startswith("#") and draw(st.integers(0, 3)) == 0:
            r = "!" + r
        if r and draw(st.integers(0, 12)) == 0:
            r = r + " "  # trailing space (ignored by git unless escaped)
        return r

    gi = {}
    for at in draw(st.lists(st.sampled_from([""] + dirs), min_size=1, max_size=3, unique=True)):
        gi[at] = [rule_for(at) for _ in range(draw(st.integers(1, 4)))]
        if not simple_only and draw(st.integers(0, 4)) == 0:
            # order matters: ignore, re-include, ignore again (the last matching rule wins)
            r = next((x for x in gi[at] if x.strip() and not x.startswith(("#", "!"))), None)
            if r:
                gi[at] += ["!" + r, r] if draw(st.booleans()) else ["!" + r]
    return {"tree": tree, "gitignores": gi}


def shard_work(ctx: Ctx) -> None:
    ctx.run_hypothesis("trees", _case(frozenset(ctx.disabled)), ctx.n(800, 20000))
