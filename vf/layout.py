"""Source layouts of a generated document.

The generators in vf/textgen.py join the words of a paragraph with GAP ("\\x01") wherever the source layout is free
(a space, several spaces, or a soft line break with any continuation indent all mean the same). realize() turns such
a raw document into concrete text for a given layout seed; two seeds give two "meaning-preserving re-layouts" (C03).

Never produced: a line break next to a template tag / HTML comment (deliberately significant), next to a hard break,
or a continuation line that starts with a word that would start a block construct.
"""

from __future__ import annotations

import random
import re

GAP = "\x01"

_CONT = re.compile(r"^((?:[ \t]*>[ \t]?|[ \t]*(?:[-*+]|\d{1,9}[.)])[ \t]+|\[\^[^\]\s]+\]:[ \t]+|[ \t]+)*)")
_TAGLIKE_END = ("%}", "}}", "#}", "-->")
_TAGLIKE_START = ("{%", "{{", "{#", "<!--")
# words that must not start a continuation line in the *source* (they would start a block there)
_BLOCK_START = re.compile(r"^([-*+]|\d{1,9}[.)]|#{1,6}|>.*|-{2,}|=+|\*{3,}|_{3,}|`{3,}.*|~{3,}.*|\|.*|\[\^[^\]]*\]:.*|\[[^\]]*\]:.*|\[[ xX]\])$")


def continuation_prefix(prefix: str) -> str:
    """The prefix of a continuation line for a paragraph whose first line has this container prefix."""
    out = []
    i = 0
    n = len(prefix)
    while i < n:
        c = prefix[i]
        if c == ">":
            out.append(">")
            i += 1
        elif c in " \t":
            out.append(c)
            i += 1
        else:
            # list marker or footnote label: replaced by spaces of the same width
            out.append(" ")
            i += 1
    return "".join(out)


def split_prefix(line: str) -> tuple[str, str]:
    m = _CONT.match(line)
    p = m.group(1)
    # a task checkbox belongs to the first line only, not to the container prefix
    return p, line[len(p):]


def realize(raw: str, seed: int, breaks: bool = True) -> str:
    """Concrete text for a layout seed. seed == 0: single spaces, no added line breaks."""
    rnd = random.Random(seed)
    out_lines = []
    space_style = rnd.choice([1, 1, 1, 2, 3]) if seed else 1
    indent_style = rnd.choice(["exact", "exact", "extra1", "extra2"]) if seed else "exact"
    break_rate = rnd.choice([0.0, 0.15, 0.3, 0.6]) if (seed and breaks) else 0.0
    for line in raw.split("\n"):
        if GAP not in line:
            out_lines.append(line)
            continue
        prefix, body = split_prefix(line)
        toks = body.split(GAP)
        cont = continuation_prefix(prefix)
        if indent_style == "extra1":
            cont += " "
        elif indent_style == "extra2":
            cont += "  "
        cur = prefix + toks[0]
        for prev, tok in zip(toks, toks[1:]):
            can_break = (
                break_rate > 0
                and not prev.endswith(_TAGLIKE_END)
                and not tok.startswith(_TAGLIKE_START)
                and not _BLOCK_START.match(tok)
                and not prev.endswith("\\")
                and tok != ""
                and prev != ""
            )
            if can_break and rnd.random() < break_rate:
                out_lines.append(cur)
                cur = cont + tok
            else:
                cur += " " * (rnd.choice([1, space_style]) if space_style > 1 else 1) + tok
        out_lines.append(cur)
    return "\n".join(out_lines)
