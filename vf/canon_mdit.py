import re
from markdown_it import MarkdownIt
from canon import ws
md = MarkdownIt("commonmark").enable("table").enable("strikethrough")

def inl(children):
    out = []; stack = [out]
    def text(s):
        cur = stack[-1]
        if cur and isinstance(cur[-1], str): cur[-1] += s
        else: cur.append(s)
    meta = []
    for t in children or []:
        ty = t.type
        if ty == "text": text(t.content)
        elif ty == "softbreak": text(" ")
        elif ty == "hardbreak": stack[-1].append(("br",))
        elif ty == "code_inline": stack[-1].append(("code", ws(t.content)))
        elif ty == "html_inline": stack[-1].append(("html", ws(t.content)))
        elif ty in ("em_open", "strong_open", "s_open", "link_open"):
            new = []; stack.append(new); meta.append(t)
        elif ty in ("em_close", "strong_close", "s_close", "link_close"):
            body = stack.pop(); o = meta.pop()
            kind = {"em_close": "em", "strong_close": "strong", "s_close": "del"}.get(ty)
            if kind: stack[-1].append((kind, fin(body)))
            else:
                href = o.attrGet("href"); title = o.attrGet("title")
                if o.markup == "autolink": stack[-1].append(("autolink", href))
                else: stack[-1].append(("link", href, title, fin(body)))
        elif ty == "image":
            stack[-1].append(("img", t.attrGet("src"), t.attrGet("title"), inl(t.children)))
        else: stack[-1].append(("?", ty))
    return fin(out)

def fin(out):
    res = [ws(o) if isinstance(o, str) else o for o in out]
    if res and isinstance(res[0], str): res[0] = res[0].lstrip()
    if res and isinstance(res[-1], str): res[-1] = res[-1].rstrip()
    for i, o in enumerate(res):
        if o == ("br",):
            if i > 0 and isinstance(res[i-1], str): res[i-1] = res[i-1].rstrip()
            if i + 1 < len(res) and isinstance(res[i+1], str): res[i+1] = res[i+1].lstrip()
    return tuple(o for o in res if o != "")

def blocks(tokens, i, end_type):
    out = []
    while i < len(tokens):
        t = tokens[i]
        if t.type == end_type: return tuple(out), i
        if t.type == "heading_open":
            out.append(("h", int(t.tag[1]), inl(tokens[i + 1].children))); i += 3
        elif t.type == "paragraph_open":
            out.append(("p", None, inl(tokens[i + 1].children))); i += 3
        elif t.type in ("bullet_list_open", "ordered_list_open"):
            ordered = t.type.startswith("ordered"); items = []
            close = t.type.replace("open", "close"); i += 1
            while tokens[i].type != close:
                assert tokens[i].type == "list_item_open"
                body, i = blocks(tokens, i + 1, "list_item_close"); items.append(body); i += 1
            start = int(t.attrGet("start") or 1) if ordered else t.markup
            out.append(("list", ordered, start, tuple(items))); i += 1
        elif t.type == "blockquote_open":
            body, i = blocks(tokens, i + 1, "blockquote_close"); out.append(("quote", body)); i += 1
        elif t.type in ("fence", "code_block"):
            info = t.info.strip() if t.type == "fence" else ""
            lang, _, extra = info.partition(" ")
            out.append(("code", lang, extra.strip(), t.content.rstrip("\n"))); i += 1
        elif t.type == "hr": out.append(("hr",)); i += 1
        elif t.type == "html_block": out.append(("htmlblock", t.content)); i += 1
        elif t.type == "table_open":
            rows = []; aligns = None; i += 1
            while tokens[i].type != "table_close":
                tt = tokens[i]
                if tt.type == "tr_open":
                    cells = []; al = []; i += 1
                    while tokens[i].type != "tr_close":
                        if tokens[i].type in ("th_open", "td_open"):
                            st = tokens[i].attrGet("style") or ""
                            al.append({"text-align:left": "left", "text-align:right": "right", "text-align:center": "center"}.get(st))
                            cells.append(inl(tokens[i + 1].children)); i += 3
                        else: i += 1
                    if aligns is None: aligns = tuple(al)
                    rows.append(tuple(cells))
                i += 1
            out.append(("table", aligns, tuple(rows))); i += 1
        else:
            out.append(("?", t.type)); i += 1
    return tuple(out), i

def canon_mdit(text):
    toks = md.parse(text)
    return blocks(toks, 0, "__none__")[0]
