"""Directory-tree specifications for the file-discovery properties (C17, C18): generation, materialisation, reference walk."""

from __future__ import annotations

import fnmatch
import os
from pathlib import Path

from hypothesis import strategies as st

DIRNAMES = ["docs", "src", "node_modules", "build", ".git", "x.egg-info", "drafts", "sub", "deep", "dir with space", "Docs"]
PLAIN_DIRNAMES = ["docs", "src", "drafts", "sub", "deep", "lib", "dir with space", "Docs"]
FILENAMES = ["a.md", "b.md", "c.mdx", "n.txt", "README.md", "big.md", ".hidden.md", "x1.md", "x2.md", "notes.markdown", "a.MD"]


@st.composite
def tree_spec(draw, dirnames=DIRNAMES, filenames=FILENAMES, max_entries: int = 22, symlinks: bool = True, sizes=(1, 30, 60, 61, 200)):
    """A list of entries: ["dir", path] | ["file", path, size] | ["link", path, target, is_dir_target]."""
    dirs = [""]
    entries: list[list] = []
    n = draw(st.integers(8, max_entries + 6))
    used = set()
    for _ in range(n):
        parent = draw(st.sampled_from(dirs))
        kind = draw(st.sampled_from(["dir", "file", "file", "file", "link"] if symlinks else ["dir", "file", "file", "file"]))
        if kind == "dir":
            if parent.count("/") >= 3:
                continue
            name = draw(st.sampled_from(dirnames))
            p = f"{parent}/{name}" if parent else name
            if p in used:
                continue
            used.add(p)
            dirs.append(p)
            entries.append(["dir", p])
        elif kind == "file":
            name = draw(st.sampled_from(filenames))
            p = f"{parent}/{name}" if parent else name
            if p in used:
                continue
            used.add(p)
            entries.append(["file", p, draw(st.sampled_from(list(sizes)))])
        else:
            name = draw(st.sampled_from(["link.md", "ln.md", "linkdir", "out.md"]))
            p = f"{parent}/{name}" if parent else name
            if p in used:
                continue
            used.add(p)
            to_dir = name == "linkdir"
            if to_dir:
                target = draw(st.sampled_from(["@OUTSIDE/odir"] + [d for d in dirs if d] or ["@OUTSIDE/odir"]))
            else:
                files = [e[1] for e in entries if e[0] == "file"]
                target = draw(st.sampled_from(["@OUTSIDE/o.md"] + files))
            entries.append(["link", p, target, to_dir])
    return entries


def materialise(root: Path, outside: Path, entries: list[list], ignore_files: dict[str, str] | None = None) -> None:
    outside.mkdir(parents=True, exist_ok=True)
    (outside / "o.md").write_text("outside file\n")
    (outside / "odir").mkdir(exist_ok=True)
    (outside / "odir" / "inner.md").write_text("outside inner\n")
    for e in entries:
        if e[0] == "dir":
            (root / e[1]).mkdir(parents=True, exist_ok=True)
    for e in entries:
        if e[0] == "file":
            p = root / e[1]
            p.parent.mkdir(parents=True, exist_ok=True)
            p.write_text("x" * e[2])
    for e in entries:
        if e[0] == "link":
            p = root / e[1]
            p.parent.mkdir(parents=True, exist_ok=True)
            t = e[2]
            target = (outside / t[len("@OUTSIDE/"):]) if t.startswith("@OUTSIDE/") else (root / t)
            if not p.exists() and not p.is_symlink():
                os.symlink(target, p)
    for rel, content in (ignore_files or {}).items():
        p = root / rel
        p.parent.mkdir(parents=True, exist_ok=True)
        p.write_text(content)


def match_any(name: str, patterns: list[str]) -> bool:
    """Basename patterns only ('*.md', 'b.md'); directory patterns ('x/') never match a file name."""
    return any(not pat.endswith("/") and fnmatch.fnmatchcase(name, pat) for pat in patterns)


def dir_match_any(name: str, patterns: list[str]) -> bool:
    """A directory is matched by 'name/' and also by a bare 'name' / wildcard pattern (gitignore syntax)."""
    for pat in patterns:
        if fnmatch.fnmatchcase(name, pat[:-1] if pat.endswith("/") else pat):
            return True
    return False
