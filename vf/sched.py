"""A deterministic cooperative scheduler for real threads (C13).

Each thread runs one callable under a per-thread sys.settrace hook that fires on every Python function call inside
flowmark/ or marko/; only the thread holding the baton runs. The schedule is data:
  ["until", t, name]  run thread t until it is about to call a function called `name` (parks it there)
  ["q", t, n]         run thread t for n call events
Thread indices are taken modulo the number of live threads. When the schedule is exhausted the remaining threads run to
completion one after the other.
"""

from __future__ import annotations

import sys
import threading


class Scheduler:
    def __init__(self, n: int, schedule: list) -> None:
        self.n = n
        self.schedule = [list(s) for s in schedule]
        self.pos = 0
        self.turn: int | None = None
        self.cv = threading.Condition()
        self.alive = set(range(n))
        self.switches = 0
        self.quantum = 0
        self.until: str | None = None
        self.depth_in_render: dict[int, int] = {}
        self.both_in_render_switches = 0
        self.inside: dict[int, set] = {i: set() for i in range(n)}

    def _next(self) -> None:
        if not self.alive:
            self.turn = None
            return
        if self.pos < len(self.schedule):
            op = self.schedule[self.pos]
            self.pos += 1
        else:
            op = ["q", 0, 10**9]
        live = sorted(self.alive)
        t = live[op[1] % len(live)]
        if self.turn != t:
            self.switches += 1
            if sum(1 for i in self.alive if "render" in self.inside[i]) >= 2:
                self.both_in_render_switches += 1
        self.turn = t
        if op[0] == "q":
            self.quantum, self.until = int(op[2]), None
        else:
            self.quantum, self.until = 10**9, str(op[2])

    def yield_point(self, me: int, fname: str) -> None:
        with self.cv:
            self.quantum -= 1
            if self.quantum <= 0 or (self.until is not None and fname == self.until):
                self._next()
                self.cv.notify_all()
            while self.turn != me:
                self.cv.wait()

    def start(self, me: int) -> None:
        with self.cv:
            while self.turn != me:
                self.cv.wait()

    def done(self, me: int) -> None:
        with self.cv:
            self.alive.discard(me)
            self._next()
            self.cv.notify_all()


def run_threads(calls: list, schedule: list, join_timeout: float = 40.0):
    """calls: list of zero-argument callables. Returns (results, stats); a result is the return value or ('raised', type name)."""
    s = Scheduler(len(calls), schedule)
    res: list = [None] * len(calls)

    def tracer_for(me: int):
        def local(frame, event, arg):
            return None

        def tr(frame, event, arg):
            if event == "call":
                fn = frame.f_code.co_filename
                if "/flowmark/" in fn or "/marko/" in fn:
                    name = frame.f_code.co_name
                    if name in ("render", "parse"):
                        s.inside[me].add(name)
                    s.yield_point(me, name)
            return None

        return tr

    def work(me: int) -> None:
        s.start(me)
        sys.settrace(tracer_for(me))
        try:
            res[me] = calls[me]()
        except BaseException as e:  # noqa: BLE001
            res[me] = ("raised", type(e).__name__)
        finally:
            sys.settrace(None)
            s.done(me)

    threads = [threading.Thread(target=work, args=(i,), daemon=True) for i in range(len(calls))]
    with s.cv:
        s._next()
    for t in threads:
        t.start()
    for t in threads:
        t.join(join_timeout)
    stuck = [i for i, t in enumerate(threads) if t.is_alive()]
    return res, {"switches": s.switches, "both_in_render_switches": s.both_in_render_switches, "stuck": stuck}
