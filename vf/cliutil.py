"""Driving flowmark's CLI in-process (cli.main) in a scratch directory, with stdin/stdout captured."""

from __future__ import annotations

import contextlib
import io
import os
import shutil
import sys
import tempfile
from pathlib import Path


class Scratch:
    """A temp directory that becomes the cwd; removed on exit."""

    def __init__(self, prefix: str = "vf_") -> None:
        self.prefix = prefix

    def __enter__(self) -> Path:
        self.old = os.getcwd()
        self.dir = Path(tempfile.mkdtemp(prefix=self.prefix)).resolve()
        os.chdir(self.dir)
        return self.dir

    def __exit__(self, *exc) -> None:
        os.chdir(self.old)
        shutil.rmtree(self.dir, ignore_errors=True)


def run_cli(argv: list[str], stdin_text: str | None = None) -> tuple[int, str, str]:
    from flowmark import cli

    out, err = io.StringIO(), io.StringIO()
    old_stdin = sys.stdin
    sys.stdin = io.StringIO(stdin_text if stdin_text is not None else "")
    try:
        with contextlib.redirect_stdout(out), contextlib.redirect_stderr(err):
            try:
                rc = cli.main(list(argv))
            except SystemExit as e:  # argparse errors
                rc = e.code if isinstance(e.code, int) else 2
    finally:
        sys.stdin = old_stdin
    return rc, out.getvalue(), err.getvalue()


def tree_snapshot(root: Path) -> dict[str, bytes]:
    snap = {}
    for p in sorted(root.rglob("*")):
        if p.is_file() and not p.is_symlink():
            snap[str(p.relative_to(root))] = p.read_bytes()
        elif p.is_symlink():
            snap[str(p.relative_to(root))] = b"->" + os.readlink(p).encode()
        elif p.is_dir():
            snap[str(p.relative_to(root)) + "/"] = b""
    return snap
