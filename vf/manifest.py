"""Regenerate MANIFEST.json from the property modules that exist:  /venv/bin/python -m vf.manifest"""
from __future__ import annotations

import importlib
import json
import subprocess
from pathlib import Path

ROOT = Path(__file__).resolve().parent.parent
ALL = [f"C{i:02d}" for i in range(1, 19)]
PENDING_REASON = "check not built yet in this session (planned in DESIGN.md; no claim is made until the check exists and is quiet and sensitive)"


def main() -> None:
    checks, na = [], []
    for pid in ALL:
        p = ROOT / "vf" / "props" / f"{pid.lower()}.py"
        if not p.exists():
            na.append({"property_id": pid, "reason": PENDING_REASON})
            continue
        mod = importlib.import_module(f"vf.props.{pid.lower()}")
        if getattr(mod, "NOT_CLAIMED", None):
            na.append({"property_id": pid, "reason": mod.NOT_CLAIMED})
            continue
        checks.append(
            {
                "property_id": pid,
                "quick_cmd": f"./check {pid} --tier quick",
                "thorough_cmd": f"./check {pid} --tier thorough",
                "evidence_file": f"evidence/{pid}.json",
                "replay_cmd_template": f"./check {pid} --replay {{path}}",
                "engine": "vf",
                "level_claimed": {
                    "category": mod.LEVEL,
                    "text": mod.LEVEL_TEXT,
                    "design_ref": f"DESIGN.md §3 {pid}",
                },
                "level_note": mod.LEVEL_NOTE,
                "technique": mod.TECHNIQUE,
            }
        )
    hooks_commits = [
        l.split()[0]
        for l in subprocess.run(["git", "-C", "/repo", "log", "--format=%h %s"], capture_output=True, text=True).stdout.splitlines()
        if l.split(" ", 1)[1].startswith("verif-hook:")
    ]
    man = {
        "version": 1,
        "setup_cmd": "./setup.sh",
        "hooks": {
            "guard": "FLOWMARK_VERIF",
            "enable": "no source hooks: checks import /repo/src directly (PYTHONPATH) and observe through public APIs, monkeypatching from the harness, sys.addaudithook and sys.settrace; FLOWMARK_VERIF=1 is exported by ./check but read by nothing in /repo",
            "baseline_off_cmd": "cd /repo && /venv/bin/python -m pytest -ra -q -p no:cacheprovider --timeout=900 --continue-on-collection-errors",
            "source_commits": hooks_commits,
            "add_only": True,
        },
        "engines": [
            {
                "name": "vf",
                "path": "vf/",
                "serves_properties": [c["property_id"] for c in checks],
                "kind_free_text": "Hypothesis-driven property-based testing + bounded-exhaustive sweeps, 16 sharded processes, own JSON delta-debugging shrinker, replay files, known-findings file",
            }
        ],
        "checks": checks,
        "not_applicable": na,
        "notes": "All checks: ./check <ID> --tier quick|thorough; VERIF_SEED selects the Hypothesis seeds; exit 2 = harness error. Repairs of genuine defects are 'fix:' commits in /repo listed in KNOWN_FINDINGS.txt.",
    }
    (ROOT / "MANIFEST.json").write_text(json.dumps(man, indent=1) + "\n")
    print(f"MANIFEST.json: {len(checks)} checks, {len(na)} not_applicable")


if __name__ == "__main__":
    main()
