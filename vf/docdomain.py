"""The feature domain of the shared Markdown grammar for each document-level property.

ENABLED[prop]  = features of vf/textgen.py that the property's generators use (each was run against the unchanged
                 tree, every red result triaged per DESIGN §2.4);
a known finding's `disable=` list is subtracted at run time (counted in the evidence as excluded_by_known_finding);
NOT_ENABLED    = grammar features that exist but are not used by that property, with the reason.
VERIF_FEAT=a,b,c overrides everything (triage aid only; never used by a registered command).
"""
from __future__ import annotations

import os

from vf import textgen

BASE = frozenset(
    "list olist quote atx emph code hr task listpad lazy blanklines tightjoin spaces strike alert cjk escape entity fenced "
    "setext reflink fnref tagline hardbreak link table refdef heading_in_quote".split()
)
# Hazard words (block-marker look-alikes) inside full documents; `haz_fence` stays off: an escaped "```" word followed by a
# code span is misread by Marko's inline parser (reader limitation, DESIGN §6), the exhaustive sweep of C01 covers the word itself.
HAZ = frozenset("link_angle autolink tags html footnote_simple indcode code_taglike table_nested olist_paren haz_bullet haz_ordered haz_atx haz_quote haz_rule haz_setext haz_pipe haz_misc haz_gtx haz_backslash".split())


ENABLED: dict[str, frozenset] = {
    "C01": BASE | HAZ,
    "C02": BASE | HAZ,
    "C03": BASE | HAZ,
    "C04": BASE | HAZ,
    "C06": BASE | HAZ,
    "C10": BASE | HAZ,
    "C13": BASE | HAZ,
}

NOT_ENABLED_REASON = (
    "not enabled for this property: mixing it into full documents produced failures whose triage is not finished "
    "(see DESIGN.md §5); where the feature matters for the property it is covered by a dedicated generator instead"
)


def features(prop: str, ctx=None, extra: frozenset = frozenset()) -> frozenset:
    if os.environ.get("VERIF_FEAT"):
        return frozenset(os.environ["VERIF_FEAT"].split(","))
    feat = set(ENABLED[prop]) | set(extra)
    if ctx is not None:
        feat -= set(ctx.disabled)
    return frozenset(feat)


def not_enabled(prop: str) -> list[str]:
    return sorted(textgen.ALL - ENABLED[prop])
