"""./check <ID> [--tier quick|thorough] [--replay PATH]

Exit 0: property held on everything explored (KNOWN-FINDING lines possible).
Exit 1: `VIOLATION property=<id> replay=<path>` printed for a violation not listed in KNOWN_FINDINGS.txt.
Exit 2: harness error (never a violation).
"""

from __future__ import annotations

import argparse
import importlib
import json
import multiprocessing as mp
import os
import sys
import time
import traceback
from collections import Counter
from pathlib import Path
from typing import Any

from vf import core
from vf.core import ROOT, Ctx, Failure, HarnessError, Note, ShardResult, StopShard


def _load(pid: str) -> Any:
    return importlib.import_module(f"vf.props.{pid.lower()}")


def _check_plain(mod: Any, case: dict) -> Failure | None:
    """check_case for replay/shrink: exceptions raised by the code under test count as failures."""
    note = Note()
    limit = int(getattr(mod, "CASE_TIMEOUT_S", 120))
    try:
        with core.case_alarm(limit):
            return mod.check_case(case, note)
    except core.CaseTimeout:
        return Failure("case-timeout", f"check_case did not finish within {limit}s")
    except HarnessError:
        raise
    except RecursionError as e:
        return Failure("exception:RecursionError", repr(e)[:300])
    except Exception as e:  # noqa: BLE001
        if core.is_repo_exception(e):
            return Failure(f"exception:{type(e).__name__}", "".join(traceback.format_exception_only(type(e), e)).strip()[:500])
        raise


def _worker(args: tuple) -> ShardResult:
    pid, tier, seed, shard, nshards, budget = args
    sys.setrecursionlimit(max(sys.getrecursionlimit(), 3000))
    mod = _load(pid)
    kfs = core.load_known_findings()
    ctx = Ctx(mod, tier, seed, shard, nshards, kfs, budget)
    try:
        mod.shard_work(ctx)
    except StopShard:
        pass
    except HarnessError as e:
        ctx.res.harness_errors.append(f"HarnessError: {e}")
    except Exception as e:  # noqa: BLE001
        ctx.res.harness_errors.append("".join(traceback.format_exception(type(e), e, e.__traceback__))[-3000:])
    return ctx.res


def _short(case: Any, limit: int = 1500) -> Any:
    s = json.dumps(case, ensure_ascii=False, default=str)
    if len(s) <= limit:
        return case
    return {"truncated": s[:limit] + "…"}


def main(argv: list[str] | None = None) -> int:
    ap = argparse.ArgumentParser()
    ap.add_argument("prop")
    ap.add_argument("--tier", default=os.environ.get("VERIF_TIER") or "quick", choices=["quick", "thorough"])
    ap.add_argument("--replay", default=None)
    ap.add_argument("--budget", type=float, default=None, help="per-shard wall budget in seconds (generated tier)")
    ap.add_argument("--no-evidence", action="store_true")
    a = ap.parse_args(argv)
    pid = a.prop.upper()
    seed = int(os.environ.get("VERIF_SEED") or "1")
    t0 = time.monotonic()
    try:
        core.assert_repo_import()
        mod = _load(pid)
        if a.replay:
            return _replay_one(mod, Path(a.replay))
        return _run(mod, pid, a.tier, seed, a.budget, t0, not a.no_evidence)
    except HarnessError as e:
        print(f"HARNESS-ERROR property={pid} {e}", file=sys.stderr)
        return 2
    except Exception:  # noqa: BLE001
        traceback.print_exc()
        print(f"HARNESS-ERROR property={pid} unexpected exception", file=sys.stderr)
        return 2


def _replay_one(mod: Any, path: Path) -> int:
    data = json.loads(path.read_text())
    case = data["case"]
    f = _check_plain(mod, case)
    if f is None:
        print(f"PASS property={mod.ID} replay={path}")
        return 0
    print(f"FAIL bucket={f.bucket}\n{f.detail}")
    print(f"VIOLATION property={mod.ID} replay={path}")
    return 1


def _run(mod: Any, pid: str, tier: str, seed: int, budget: float | None, t0: float, write_ev: bool) -> int:
    kfs = core.load_known_findings()
    my_open = [k for k in kfs if k.prop == pid and k.state == "open"]
    violations: list[tuple[str, str]] = []  # (replay path, text)
    known_printed: list[str] = []
    replay_stats = Counter()

    # ---- 1. replay tier: committed regression cases and known-finding pins
    kf_replays = {str((ROOT / k.replay).resolve()): k for k in my_open if k.replay}
    rdir = ROOT / "replays" / pid
    files = sorted(rdir.glob("*.json")) if rdir.is_dir() else []
    for k in my_open:
        if k.replay and not (ROOT / k.replay).exists():
            raise HarnessError(f"known finding {k.slug}: replay file {k.replay} missing")
    for fpath in files:
        data = json.loads(fpath.read_text())
        f = _check_plain(mod, data["case"])
        replay_stats["replayed"] += 1
        k = kf_replays.get(str(fpath.resolve()))
        if k is not None:
            if f is not None:
                line = f"KNOWN-FINDING: property={pid} {k.slug}: {k.what}"
                print(line)
                known_printed.append(line)
                replay_stats["known_finding_still_fails"] += 1
            else:
                print(f"NOTE property={pid} known finding {k.slug} no longer reproduces from its pinned replay")
                replay_stats["known_finding_gone"] += 1
        else:
            if f is not None:
                rel = fpath.relative_to(ROOT)
                print(f"FAIL regression replay {rel}: bucket={f.bucket}\n{f.detail[:2000]}")
                violations.append((str(rel), f.bucket))
                replay_stats["regression_failed"] += 1
            else:
                replay_stats["regression_passed"] += 1

    # ---- 2. generated tier
    bud = budget if budget is not None else float(getattr(mod, "BUDGET", {}).get(tier, 50 if tier == "quick" else 900))
    nshards = int(getattr(mod, "NSHARDS", core.NSHARDS))
    jobs = [(pid, tier, seed, s, nshards, bud) for s in range(nshards)]
    if nshards == 1 or os.environ.get("VERIF_INPROC"):
        results = [_worker(j) for j in jobs]
    else:
        mpctx = mp.get_context("fork")
        with mpctx.Pool(min(nshards, os.cpu_count() or 1)) as pool:
            results = list(pool.imap_unordered(_worker, jobs))

    total = ShardResult()
    for r in results:
        total.evaluations += r.evaluations
        total.nontrivial |= r.nontrivial
        total.counters.update(r.counters)
        total.failures.extend(r.failures)
        total.harness_errors.extend(r.harness_errors)
        total.exhaustive.extend(r.exhaustive)
        total.budget_exhausted |= r.budget_exhausted
        for s in r.samples:
            if len(total.samples) < 8:
                total.samples.append(s)
    if total.harness_errors:
        print(total.harness_errors[0], file=sys.stderr)
        raise HarnessError(f"{len(total.harness_errors)} shard(s) reported harness errors")

    # ---- 3. shrink + report (one replay per failure bucket)
    by_bucket: dict[str, list[tuple[str, Any]]] = {}
    for b, d, c in total.failures:
        by_bucket.setdefault(b, []).append((d, c))
    outdir = ROOT / "out"
    shrink_budget = 20.0 if tier == "quick" else 90.0
    for b in sorted(by_bucket)[: int(os.environ.get('VERIF_MAXBUCKETS', '6'))]:
        cands = sorted(by_bucket[b], key=lambda dc: len(json.dumps(dc[1], default=str)))
        detail, case = cands[0]

        def still(c: Any, _b: str = b) -> bool:
            f = _check_plain(mod, c)
            return f is not None and f.bucket == _b and not core.sig_hit(mod, kfs, c, f)

        frozen = tuple(getattr(mod, "SHRINK_FROZEN", ())) + ("kind",)  # the discriminator is never shrunk (signatures read it)
        if os.environ.get("VERIF_NOSHRINK"):
            for d_, _c in cands[:3]:
                print(f"RAW bucket={b}\n{d_[:1500]}")
            shrink_budget = 0.0
        try:
            small = core.shrink_case(case, still, shrink_budget, frozen)
            f2 = _check_plain(mod, small)
            if f2 is None or f2.bucket != b:
                small, f2 = case, Failure(b, detail)
        except HarnessError:
            raise
        except Exception:  # noqa: BLE001
            small, f2 = case, Failure(b, detail)
        outdir.mkdir(exist_ok=True)
        h = "%016x" % core.case_hash(small)
        p = outdir / f"{pid}-{h}.json"
        p.write_text(
            json.dumps(
                {"property": pid, "expect": "pass", "failure": f2.to_json(), "case": small, "seed": seed, "tier": tier},
                indent=1,
                ensure_ascii=False,
            )
        )
        print(f"FAIL bucket={b} ({total.counters['fail:' + b]} failing cases)\n{f2.detail[:3000]}")
        violations.append((str(p.relative_to(ROOT)), b))

    # ---- 4. evidence
    wall = time.monotonic() - t0
    classes = {k: v for k, v in sorted(total.counters.items())}
    samples = [_short(s) for s in total.samples] or [{"note": "no non-trivial case sampled"}]
    cov: dict[str, Any] = {
        "evaluations": total.evaluations + replay_stats["replayed"],
        "distinct_nontrivial": len(total.nontrivial),
        "rule": mod.RULE,
        "samples": samples,
        "generated_evaluations": total.evaluations,
        "replay_tier": dict(replay_stats),
        "counters": classes,
        "exhaustive_domains": sorted(set(total.exhaustive)),
        "budget_exhausted": total.budget_exhausted,
        "excluded_by_known_finding": sorted({f for k in my_open for f in k.disable}),
        "known_findings_printed": known_printed,
        "shards": nshards,
    }
    extra = getattr(mod, "evidence_extra", None)
    if extra:
        cov.update(extra(total, tier))
    if getattr(mod, "EXHAUSTIVE_IF", None) and set(mod.EXHAUSTIVE_IF[tier]) <= set(total.exhaustive):
        cov["exhaustive"] = True
    ev = {
        "property_id": pid,
        "tier": tier,
        "seed": seed,
        "level": mod.LEVEL,
        "coverage": cov,
        "assumptions": list(mod.ASSUMPTIONS),
        "wall_s": round(wall, 2),
        "violations": len(violations),
    }
    if write_ev:
        (ROOT / "evidence").mkdir(exist_ok=True)
        (ROOT / "evidence" / f"{pid}.json").write_text(json.dumps(ev, indent=1, ensure_ascii=False, default=str) + "\n")

    print(
        f"{pid} tier={tier} seed={seed}: evaluations={cov['evaluations']} distinct_nontrivial={cov['distinct_nontrivial']} "
        f"violations={len(violations)} known={len(known_printed)} wall={wall:.1f}s"
        + (" (budget exhausted: inconclusive remainder)" if total.budget_exhausted else "")
    )
    for path, b in violations:
        print(f"VIOLATION property={pid} replay={path}")
    return 1 if violations else 0


if __name__ == "__main__":
    sys.exit(main())
