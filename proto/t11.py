import time, sys
from flowmark import reformat_text
for fam, f in {"quotes": lambda n: "> " * n + "x", "lists": lambda n: "- " * n + "x", "olists": lambda n: "1. " * n + "x", "mixed": lambda n: "> - " * (n // 2) + "x"}.items():
    for n in (4, 8, 12, 16, 20, 24, 28):
        s = f(n)
        t0 = time.process_time()
        try:
            r = reformat_text(s); err = ""
        except Exception as e:
            err = type(e).__name__
        dt = time.process_time() - t0
        print(fam, n, round(dt, 3), err)
        if dt > 10: break
