# C12 crash/robustness probe + C08/C09 string-level probes
import itertools, time, collections, sys
from flowmark import reformat_text
from flowmark.typography.smartquotes import smart_quotes
from flowmark.typography.ellipses import ellipses
from hypothesis import given, settings, seed, Phase, HealthCheck, strategies as st

# C08 exhaustive small strings
A = ["'", '"', "a", "s", " ", ".", "\n", "-", "{", "%", "}", "’", "“"]
bad = collections.Counter(); ex = {}
t0 = time.time()
n = 0
for L in range(0, 6):
    for tup in itertools.product(A, repeat=L):
        s = "".join(tup); n += 1
        r = smart_quotes(s)
        if len(r) != len(s): bad["len"] += 1; ex.setdefault("len", (s, r)); continue
        for a, b in zip(s, r):
            if a != b:
                if a == "'" and b in "‘’": continue
                if a == '"' and b in "“”": continue
                bad["char"] += 1; ex.setdefault("char", (s, r)); break
print("C08 strings", n, time.time() - t0, dict(bad), ex)

# C09 exhaustive
A = ["a", " ", ".", "'", '"', ",", "\n", "-", ")", "…", "1"]
bad = collections.Counter(); ex = {}
n = 0
import re
for L in range(0, 7):
    for tup in itertools.product(A, repeat=L):
        s = "".join(tup); n += 1
        r = ellipses(s)
        r2 = ellipses(r)
        if r2 != r: bad["nonidem"] += 1; ex.setdefault("nonidem", (s, r, r2))
        # inverse: replace … by ... and compare modulo spaces
        def norm(x): return re.sub(r"\s+", "", x.replace("…", "..."))
        if norm(r) != norm(s): bad["other_changed"] += 1; ex.setdefault("other_changed", (s, r))
        if "..." not in s and r != s: bad["changed_without_dots"] += 1; ex.setdefault("cwd", (s, r))
print("C09 strings", n, dict(bad), ex)
