import sys, collections, re
from hypothesis import given, settings, seed, HealthCheck, strategies as st, Phase
import gen
from canon import canon_doc, parse
from flowmark import reformat_text
from flowmark.formats.flowmark_markdown import ListSpacing
from marko import block
cnt = collections.Counter(); ex = {}
feat = gen.ALL
@settings(max_examples=int(sys.argv[1]), deadline=None, database=None, suppress_health_check=list(HealthCheck), phases=[Phase.generate])
@seed(11)
@given(gen.doc(feat), st.sampled_from([0, 15, 40, 88]), st.booleans(), st.booleans(), st.booleans(), st.booleans())
def t(d, w, sem, cl, sq, el):
    if d.lstrip().startswith("---"): return
    cnt["n"] += 1
    kw = dict(width=w, semantic=sem, cleanups=cl, smartquotes=sq, ellipses=el)
    # C07 (2)
    fm = "---\ntitle: \"x\" ... it's\nlist:\n  - a\n---\n"
    try:
        lhs = reformat_text(fm + d, **kw); rhs = fm + reformat_text(d, **kw)
    except Exception as e:
        cnt["exc"] += 1; ex.setdefault("exc", (d, repr(e))); return
    if lhs != rhs: cnt["c07_eq_bad"] += 1; ex.setdefault("c07", (d, kw, lhs, rhs))
    # C10 list spacing: only blank lines differ
    outs = {m: reformat_text(d, list_spacing=ListSpacing(m), **kw) for m in ("preserve", "loose", "tight")}
    def nb(s): return [l for l in s.split("\n") if l.strip(" >") != ""]
    for m in ("loose", "tight"):
        if nb(outs[m]) != nb(outs["preserve"]): cnt["c10_nonblank_" + m] += 1; ex.setdefault("c10" + m, (d, kw, outs["preserve"], outs[m]))
    # C10 cleanups: only heading lines differ
    a = reformat_text(d, **{**kw, "cleanups": False}); b = reformat_text(d, **{**kw, "cleanups": True})
    la, lb = a.split("\n"), b.split("\n")
    if len(la) != len(lb): cnt["c10_cleanup_linecount"] += 1; ex.setdefault("c10cl", (d, kw, a, b))
    else:
        for x, y in zip(la, lb):
            if x != y and not re.match(r"^[ >0-9.\-*+]*#{1,6} ", x): cnt["c10_cleanup_nonheading"] += 1; ex.setdefault("c10clnh", (d, kw, x, y)); break
t()
print(dict(cnt))
for k, v in ex.items():
    print("==", k)
    for x in v: print("   ", repr(x)[:700])
