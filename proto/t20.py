import sys, collections
from hypothesis import given, settings, seed, HealthCheck, strategies as st, Phase
import gen
from canon import canon_doc
from canon_mdit import canon_mdit
from flowmark import reformat_text
cnt = collections.Counter(); ex = {}
def strip_meta(c):
    # drop task 'checked' and list tightness not present; unify ("p", chk, inl) -> ("p", None, inl) only if chk None
    return c
feat = (gen.BASIC | {"haz_bullet", "haz_ordered", "haz_atx", "haz_quote", "haz_rule", "haz_setext", "haz_fence", "haz_pipe", "escape", "hardbreak", "html", "strike", "indcode", "setext"}) - {"table"}
@settings(max_examples=int(sys.argv[1]), deadline=None, database=None, suppress_health_check=list(HealthCheck), phases=[Phase.generate])
@seed(17)
@given(gen.doc(feat), st.sampled_from([0, 10, 25, 40, 88]), st.booleans())
def t(d, w, sem):
    if d.lstrip().startswith("---"): return
    cnt["n"] += 1
    try:
        cm = canon_mdit(d); cf = canon_doc(d)[1]
    except Exception as e:
        cnt["canon_exc"] += 1; ex.setdefault("exc", (d, repr(e))); return
    if cm != cf:
        cnt["parsers_disagree_on_input"] += 1; ex.setdefault("disagree_in", (d, cm, cf)); return
    cnt["agree_in"] += 1
    o = reformat_text(d, width=w, semantic=sem, cleanups=False)
    okF = canon_doc(o)[1] == cf
    okM = canon_mdit(o) == cm
    cnt[f"F={okF},M={okM}"] += 1
    if okF and not okM: ex.setdefault("only_mdit_sees", (d, w, sem, o, cm, canon_mdit(o)))
t()
print(dict(cnt))
for k, v in ex.items(): print("==", k); [print("    ", repr(x)[:600]) for x in v]
