import sys, collections, json, os, re
from hypothesis import given, settings, seed, Phase, HealthCheck, strategies as st, assume
import gen
from canon import canon_doc
from flowmark import reformat_text
from multiprocessing import Pool
W = [0, 8, 15, 25, 40, 88]
def one(args):
    prop, featnames, seedv, n = args
    feat = frozenset(featnames) | {"quotes"}
    out = {}
    @settings(max_examples=n, deadline=None, database=None, suppress_health_check=list(HealthCheck), report_multiple_bugs=False)
    @seed(seedv)
    @given(gen.doc(feat), st.sampled_from(W), st.booleans(), st.booleans(), st.booleans(), st.booleans())
    def t(d, w, sem, cl, sq, el):
        assume(not d.lstrip().startswith("---"))
        if prop == "c08":
            a = reformat_text(d, width=w, semantic=sem, cleanups=cl, smartquotes=False, ellipses=el)
            b = reformat_text(d, width=w, semantic=sem, cleanups=cl, smartquotes=True, ellipses=el)
            ok = len(a) == len(b) and all(x == y or (x == "'" and y in "‘’") or (x == '"' and y in "“”") for x, y in zip(a, b))
            if not ok: out["f"] = dict(IN=d, w=w, sem=sem, el=el, A=a, B=b); assert False
        elif prop == "c09":
            a = reformat_text(d, width=0, semantic=sem, cleanups=cl, smartquotes=sq, ellipses=False)
            b = reformat_text(d, width=0, semantic=sem, cleanups=cl, smartquotes=sq, ellipses=True)
            na = re.sub(r"[ \n]+", "", a); nb = re.sub(r"[ \n]+", "", b.replace("…", "..."))
            if na != nb: out["f"] = dict(IN=d, w=w, sem=sem, A=a, B=b); assert False
        elif prop == "c12":
            r = reformat_text(d, width=w, semantic=sem, cleanups=cl, smartquotes=sq, ellipses=el)
            if not r.endswith("\n") or "\x00" in r: out["f"] = dict(IN=d, w=w, R=r); assert False
    try:
        t()
    except AssertionError:
        return out.get("f")
    except Exception as e:
        import traceback
        return dict(ERR=repr(e), TB=traceback.format_exc()[-600:], **out.get("f", {}))
    return None
if __name__ == "__main__":
    prop = sys.argv[1]; nseeds = int(sys.argv[2]); n = int(sys.argv[3])
    feats = sorted(gen.ALL)
    with Pool(16) as p:
        res = p.map(one, [(prop, feats, s, n) for s in range(1, nseeds + 1)])
    seen = {}
    for r in res:
        if r is None: continue
        seen.setdefault(r.get("IN", r.get("ERR")), r)
    print("seeds failing:", sum(r is not None for r in res), "/", nseeds, " distinct minimal:", len(seen))
    for k in sorted(seen, key=lambda s: len(s or ""))[:8]:
        print("-" * 60)
        for kk, vv in seen[k].items(): print(f"{kk}={vv!r}" if kk != "TB" else vv)
