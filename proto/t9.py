import sys, os, io
from pathlib import Path
events = []
ON = [False]
def hook(ev, args):
    if not ON[0]: return
    if ev in ("open", "os.rename", "os.mkdir", "os.remove", "os.rmdir", "shutil.move", "shutil.copyfile", "os.truncate", "os.chmod", "shutil.copymode", "shutil.copystat", "os.link", "os.symlink", "os.utime", "shutil.rmtree", "os.scandir", "os.listdir"):
        a = tuple(str(x) for x in args)
        if any("/fi/" in x for x in a): events.append((ev, a))
sys.addaudithook(hook)
from flowmark import reformat_file
d = Path("/tmp/scratch/fi"); 
for backup in (False, True):
    p = d / "x.md"; p.write_text("Hello   world.  it's\n")
    events.clear(); ON[0] = True
    reformat_file(p, None, inplace=True, nobackup=not backup)
    ON[0] = False
    print("backup", backup); [print("  ", e) for e in events]
    print(sorted(os.listdir(d)))
events.clear(); ON[0] = True
reformat_file(d / "x.md", d / "newdir" / "out.md")
ON[0] = False
[print("  ", e) for e in events]
