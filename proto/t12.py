"""Feasibility: deterministic cooperative scheduler over real threads using sys.settrace call events."""
import sys, threading, time, random
from flowmark import reformat_text

class Sched:
    def __init__(self, n, schedule):
        self.n = n; self.schedule = list(schedule); self.pos = 0
        self.turn = None; self.cv = threading.Condition(); self.alive = set(range(n)); self.switches = 0; self.quantum = 0
    def _next(self, me_done=None):
        # pick next thread from schedule among alive
        while True:
            if not self.alive: self.turn = None; return
            if self.pos < len(self.schedule): t, q = self.schedule[self.pos]; self.pos += 1
            else: t, q = min(self.alive), 10**9
            t = sorted(self.alive)[t % len(self.alive)]
            self.turn, self.quantum = t, q; return
    def yield_point(self, me):
        with self.cv:
            self.quantum -= 1
            if self.quantum <= 0:
                old = self.turn
                self._next()
                if self.turn != old: self.switches += 1
                self.cv.notify_all()
            while self.turn != me: self.cv.wait()
    def start(self, me):
        with self.cv:
            while self.turn != me: self.cv.wait()
    def done(self, me):
        with self.cv:
            self.alive.discard(me); self._next(); self.cv.notify_all()

def run(docs, schedule):
    s = Sched(len(docs), schedule); res = [None] * len(docs)
    def tracer_for(me):
        def tr(frame, event, arg):
            if event == "call":
                fn = frame.f_code.co_filename
                if "/flowmark/" in fn or "/marko/" in fn: s.yield_point(me)
            return None
        return tr
    def work(me):
        s.start(me)
        sys.settrace(tracer_for(me))
        try: res[me] = reformat_text(*docs[me][0], **docs[me][1])
        except BaseException as e: res[me] = e
        finally:
            sys.settrace(None); s.done(me)
    ths = [threading.Thread(target=work, args=(i,)) for i in range(len(docs))]
    with s.cv: s._next()
    for t in ths: t.start()
    with s.cv: s.cv.notify_all()
    for t in ths: t.join(30)
    return res, s.switches

docs = [(("# A\n\n- one [x]\n- two\n\n[x]: http://a.b\n\nPara with `code` and more words here to wrap around the line. Another one!\n",), dict(width=30)),
        (("> quote text that is long enough to wrap. Yes.\n\n1. a\n2. b\n\n| t | u |\n|---|---|\n| 1 | 2 |\n\nfoot[^1]\n\n[^1]: note\n",), dict(width=20, semantic=False))]
solo = [reformat_text(*a, **k) for a, k in docs]
rnd = random.Random(1)
t0 = time.time(); tot = 0
for it in range(50):
    sched = [(rnd.randrange(2), rnd.randrange(1, 40)) for _ in range(400)]
    res, sw = run(docs, sched); tot += sw
    assert res == solo, (res, solo)
print("ok 50 runs", round(time.time() - t0, 2), "s; switches", tot)
