"""Phase-aware deterministic scheduler prototype."""
import sys, threading, random
from flowmark import reformat_text

class Sched:
    """schedule: list of ops ('q', t, n) run thread t for n call events; ('until', t, name) run t until it is about to call function `name`."""
    def __init__(self, n, schedule):
        self.n = n; self.schedule = list(schedule); self.pos = 0
        self.turn = None; self.cv = threading.Condition(); self.alive = set(range(n)); self.switches = 0
        self.quantum = 0; self.until = None
    def _next(self):
        if not self.alive: self.turn = None; return
        if self.pos < len(self.schedule):
            op = self.schedule[self.pos]; self.pos += 1
        else:
            op = ("q", 0, 10**9)
        t = sorted(self.alive)[op[1] % len(self.alive)]
        if self.turn != t: self.switches += 1
        self.turn = t
        if op[0] == "q": self.quantum, self.until = op[2], None
        else: self.quantum, self.until = 10**9, op[2]
    def yield_point(self, me, fname):
        with self.cv:
            self.quantum -= 1
            if self.quantum <= 0 or (self.until is not None and fname == self.until):
                self._next(); self.cv.notify_all()
            while self.turn != me: self.cv.wait()
    def start(self, me):
        with self.cv:
            while self.turn != me: self.cv.wait()
    def done(self, me):
        with self.cv:
            self.alive.discard(me); self._next(); self.cv.notify_all()

def run(calls, schedule):
    s = Sched(len(calls), schedule); res = [None] * len(calls)
    def tracer_for(me):
        def tr(frame, event, arg):
            if event == "call":
                fn = frame.f_code.co_filename
                if "/flowmark/" in fn or "/marko/" in fn: s.yield_point(me, frame.f_code.co_name)
            return None
        return tr
    def work(me):
        s.start(me); sys.settrace(tracer_for(me))
        try: res[me] = calls[me]()
        except BaseException as e: res[me] = repr(e)
        finally: sys.settrace(None); s.done(me)
    ths = [threading.Thread(target=work, args=(i,)) for i in range(len(calls))]
    with s.cv: s._next()
    for t in ths: t.start()
    for t in ths: t.join(30)
    return res, s.switches

if __name__ == "__main__":
    mutate = len(sys.argv) > 1
    if mutate:
        import flowmark.linewrapping.markdown_filling as mf, flowmark.formats.flowmark_markdown as fmm
        orig = fmm.flowmark_markdown; cache = {}; cur = [None]
        def cached(line_wrapper=None, list_spacing=fmm.ListSpacing.preserve):
            if list_spacing not in cache:
                m = orig(lambda t, a, b: cur[0](t, a, b), list_spacing); m._setup_extensions(); m._setup_extensions = lambda: None; cache[list_spacing] = m
            cur[0] = line_wrapper
            return cache[list_spacing]
        mf.flowmark_markdown = cached
    docs = [("# A\n\n- one [x]\n- two\n\n[x]: http://a.b\n\nPara with `code` and more words here to wrap around the line. Another one!\n", dict(width=30)),
            ("> quote text that is long enough to wrap. Yes.\n\n1. a\n2. b\n\n| t | u |\n|---|---|\n| 1 | 2 |\n\nfoot[^1]\n\n[^1]: note\n", dict(width=30))]
    calls = [lambda d=d, k=k: reformat_text(d, **k) for d, k in docs]
    solo = [c() for c in calls]
    rnd = random.Random(1); bad = 0
    MARK = ["parse", "render", "parse_inline", "render_paragraph", "render_list", "enhanced_wrapper", "wrap_paragraph_lines", "render_quote", "parse_source"]
    for it in range(30):
        sched = [("until", 0, rnd.choice(MARK)), ("until", 1, rnd.choice(MARK))] + [("q", rnd.randrange(2), rnd.randrange(1, 8)) for _ in range(300)]
        res, sw = run(calls, sched)
        if res != solo: bad += 1
    print("mutated" if mutate else "original", "-> differing runs:", bad, "/ 30")
