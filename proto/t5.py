import sys, collections, json, os
from hypothesis import given, settings, seed, Phase, HealthCheck, strategies as st, assume
import gen
from canon import canon_doc
from flowmark import reformat_text
from multiprocessing import Pool

W = [0, 8, 15, 25, 40, 88]
EXCL = [s for s in os.environ.get("EXCL", "").split("§") if s]
def one(args):
    prop, featnames, seedv, n = args
    feat = frozenset(featnames)
    out = {}
    @settings(max_examples=n, deadline=None, database=None, suppress_health_check=list(HealthCheck), report_multiple_bugs=False)
    @seed(seedv)
    @given(gen.doc(feat), st.sampled_from(W), st.booleans(), st.sampled_from(W), st.booleans())
    def t(d, w, sem, w2, sem2):
        assume(not d.lstrip().startswith("---"))
        for e in EXCL: assume(e not in d)
        a = reformat_text(d, width=w, semantic=sem, cleanups=False)
        if prop == "c01":
            ci, co = canon_doc(d), canon_doc(a)
            if ci != co:
                out["f"] = dict(IN=d, w=w, sem=sem, OUT=a, CI=repr(ci), CO=repr(co)); assert False
        elif prop == "c02":
            b = reformat_text(a, width=w, semantic=sem, cleanups=False)
            if a != b:
                out["f"] = dict(IN=d, w=w, sem=sem, A=a, B=b); assert False
        elif prop == "c03":
            a2 = reformat_text(d, width=w2, semantic=sem2, cleanups=False)
            b2 = reformat_text(a, width=w2, semantic=sem2, cleanups=False)
            if a2 != b2:
                out["f"] = dict(IN=d, w=w, sem=sem, w2=w2, sem2=sem2, A=a, A2=a2, B2=b2); assert False
    try:
        t()
    except AssertionError:
        return out.get("f")
    except Exception as e:
        return dict(ERR=repr(e), **out.get("f", {}))
    return None

if __name__ == "__main__":
    prop = sys.argv[1]; feats = sys.argv[2].split(","); nseeds = int(sys.argv[3]); n = int(sys.argv[4])
    if feats == ["BASIC"]: feats = sorted(gen.BASIC)
    elif feats[0] == "BASIC+": feats = sorted(gen.BASIC | set(feats[1:]))
    elif feats == ["ALL"]: feats = sorted(gen.ALL)
    with Pool(16) as p:
        res = p.map(one, [(prop, feats, s, n) for s in range(1, nseeds + 1)])
    seen = {}
    for r in res:
        if r is None: continue
        seen.setdefault(r.get("IN"), r)
    print("seeds failing:", sum(r is not None for r in res), "/", nseeds, " distinct minimal:", len(seen))
    for k in sorted(seen, key=lambda s: len(s or "")):
        print("-" * 60)
        for kk, vv in seen[k].items(): print(f"{kk}={vv!r}")
