"""Prototype of C11 oracles on the real line_wrap_by_sentence."""
import sys, collections
from hypothesis import given, settings, seed, HealthCheck, strategies as st, Phase
from flowmark import line_wrap_by_sentence
from flowmark.linewrapping.sentence_split_regex import heuristic_end_of_sentence as is_end

NON = ["alpha", "Beta", "it", "a", "I", "word", "longerword", "x", "42", "of", "to", "Supercalifragilistic", "THE", "U.S", "v1", "cat,", "dog;", "(paren", "Mr"]
END = ["end.", "done!", "really?", "stop.)", "finished.", "ok.", "no.", 'said."']
assert all(not is_end(w) for w in NON) and all(is_end(w) for w in END)
sent = st.tuples(st.lists(st.sampled_from(NON), min_size=0, max_size=14), st.sampled_from(END)).map(lambda t: t[0] + [t[1]])
para = st.lists(sent, min_size=2, max_size=7)
MIN = 20
cnt = collections.Counter(); ex = {}

def analyse(sents, width, ii, si):
    text = " ".join(" ".join(s) for s in sents)
    out = line_wrap_by_sentence(width=width, is_markdown=True)(text, ii, si)
    lines = out.split("\n")
    body = [l[len(ii):] if i == 0 else l[len(si):] for i, l in enumerate(lines)]
    # map sentence index -> line index holding its last word
    words = [w for s in sents for w in s]
    assert " ".join(body).split() == words, (body, words)
    endline = []; wi = 0; pos = []
    for li, b in enumerate(body):
        for w in b.split(): pos.append(li)
    k = 0; sofar = []
    # word index within its line
    widx = []; 
    for li, b in enumerate(body):
        for j, w in enumerate(b.split()): widx.append(j)
    for s in sents:
        k += len(s); endline.append(pos[k - 1])
        li = pos[k - 1]; j = widx[k - 1]
        sofar.append(len(" ".join(body[li].split()[: j + 1])))
    return lines, body, endline, sofar

@settings(max_examples=int(sys.argv[1]), deadline=None, database=None, suppress_health_check=list(HealthCheck), phases=[Phase.generate])
@seed(5)
@given(para, st.integers(0, 100), st.lists(st.sampled_from(NON), min_size=0, max_size=5), st.integers(0, 3), st.sampled_from([30, 40, 60, 88, 25]), st.sampled_from([("", ""), ("- ", "  "), ("> ", "> "), ("10. ", "    ")]), st.data())
def t(sents, kk, newwords, op, width, ind, data):
    ii, si = ind
    k = kk % len(sents)
    s = sents[k]; body_words = s[:-1]
    if op == 0: nb = body_words + newwords
    elif op == 1: nb = newwords + body_words
    elif op == 2: nb = body_words[: len(body_words) // 2]
    else: nb = newwords
    sents2 = sents[:k] + [nb + [s[-1]]] + sents[k + 1:]
    if sents2 == sents: return
    L, B, E, S = analyse(sents, width, ii, si)
    L2, B2, E2, S2 = analyse(sents2, width, ii, si)
    cnt["n"] += 1
    # prefix: lines strictly before the line holding end of sentence k-1
    if k > 0:
        p = min(E[k - 1], E2[k - 1])
        if L[:p] != L2[:p]: cnt["prefix_bad"] += 1; ex.setdefault("prefix", (sents, sents2, width, ind, L, L2))
    # suffix: first j>=k with both end lines >= MIN
    j = None
    for q in range(k, len(sents)):
        if S[q] >= MIN and S2[q] >= MIN:
            # and sentence q ends its line in both (it is the last word of that line)
            j = q; break
    if j is not None:
        cnt["has_j"] += 1
        if L[E[j] + 1:] != L2[E2[j] + 1:]: cnt["suffix_bad"] += 1; ex.setdefault("suffix", (sents, sents2, width, ind, L, L2, j))
        if L != L2: cnt["nontrivial"] += 1
    # break justification + presence
    for Bx, Lx in ((B, L),):
        for i in range(len(Bx) - 1):
            last = Bx[i].split()[-1]; nxt = Bx[i + 1].split()[0]
            if not is_end(last) and len(Lx[i]) + 1 + len(nxt) <= width: cnt["unjustified"] += 1; ex.setdefault("unjust", (sents, width, ind, Lx))
        for i, b in enumerate(Bx):
            acc = ""
            ws = b.split()
            for w in ws[:-1]:
                acc = (acc + " " + w).strip()
                if is_end(w) and len(acc) >= MIN: cnt["missing_break"] += 1; ex.setdefault("missing", (sents, width, ind, Lx))
t()
print(dict(cnt))
for k, v in ex.items():
    print("==", k)
    for x in v: print("   ", x)
