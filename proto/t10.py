import time, sys
from flowmark import reformat_text
fams = {
 "words": lambda n: "word " * n,
 "brackets": lambda n: "[" * n,
 "closebr": lambda n: "]" * n + "(" * n,
 "stars": lambda n: "*a " * n,
 "stars2": lambda n: "*" * n + "a" + "*" * n,
 "underscores": lambda n: "_a_ " * n,
 "backticks": lambda n: "`" * n,
 "btpairs": lambda n: "`a` " * n,
 "bt_incr": lambda n: " ".join("`" * i for i in range(1, int(n ** 0.5) * 2)),
 "lt": lambda n: "<" * n,
 "lta": lambda n: "<a " * n,
 "comment_open": lambda n: "<!-- " * n,
 "tagopen": lambda n: "{% " * n,
 "tagpairs": lambda n: "{% a %}" * n,
 "varopen": lambda n: "{{ " * n,
 "quotes": lambda n: "> " * min(n, 200) + "x",
 "lists": lambda n: "- " * min(n, 200) + "x",
 "backslash": lambda n: "\\" * n,
 "links": lambda n: "[a](b) " * n,
 "linknest": lambda n: "[" * min(n, 500) + "a" + "](u)" * min(n, 500),
 "bang": lambda n: "![" * n,
 "tildes": lambda n: "~a " * n,
 "dq": lambda n: '"a ' * n,
 "sq": lambda n: "'a " * n,
 "dots": lambda n: "." * n,
 "dots3": lambda n: "a... " * n,
 "pipes": lambda n: "|" * n,
 "table": lambda n: "|a|b|\n|-|-|\n" + "|c|d|\n" * n,
 "urls": lambda n: "http://a.b/c " * n,
 "www": lambda n: "www." * n,
 "email": lambda n: "a@b." * n,
 "lines": lambda n: "a\n" * n,
 "paras": lambda n: "a\n\n" * n,
 "hash": lambda n: "#" * n,
 "fn": lambda n: "[^1]" * n + "\n\n[^1]: x",
 "amp": lambda n: "&a" * n,
 "cr": lambda n: "a\r" * n,
 "refdefs": lambda n: "".join(f"[r{i}]: /u{i}\n" for i in range(n // 8)) + "\n" + " ".join(f"[r{i}]" for i in range(n // 8)),
 "space_br": lambda n: ("a" + " " * 50 + "\n") * (n // 50),
}
for name, f in fams.items():
    row = []
    for n in (500, 1000, 2000, 4000):
        s = f(n)
        t0 = time.process_time()
        try:
            reformat_text(s, semantic=True, smartquotes=True, ellipses=True, cleanups=True)
            err = ""
        except Exception as e:
            err = type(e).__name__
        row.append((len(s), round(time.process_time() - t0, 3), err))
        if row[-1][1] > 20: break
    print(f"{name:14s}", row)
