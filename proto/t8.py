import itertools, collections, sys
from flowmark import wrap_paragraph_lines, wrap_paragraph, fill_text, line_wrap_to_width, line_wrap_by_sentence, Wrap
from flowmark.linewrapping.text_wrapping import simple_word_splitter
from flowmark.linewrapping.sentence_split_regex import heuristic_end_of_sentence
bad = collections.Counter(); ex = {}
def note(k, v):
    bad[k] += 1; ex.setdefault(k, v)
# bounded exhaustive: word lengths 1..5 (+ a long one), up to 5 words, widths 1..9, initial col 0..4, subsequent 0..3
n = 0
for nw in range(0, 5):
  for lens in itertools.product([1, 2, 3, 5, 9], repeat=nw):
    words = [chr(ord("a") + i) * L for i, L in enumerate(lens)]
    text = " ".join(words)
    for width in range(1, 10):
      for ic in range(0, 4):
        for so in range(0, 3):
          n += 1
          lines = wrap_paragraph_lines(text, width, initial_column=ic, subsequent_offset=so, splitter=simple_word_splitter)
          if " ".join(lines).split() != words: note("lossy", (text, width, ic, so, lines))
          for i, ln in enumerate(lines):
              off = ic if i == 0 else so
              if off + len(ln) > width and " " in ln: note("too_long", (text, width, ic, so, lines))
              if i + 1 < len(lines):
                  nxt = lines[i + 1].split()[0]
                  if off + len(ln) + 1 + len(nxt) <= width: note("not_maximal", (text, width, ic, so, lines))
              if ln != ln.strip() or ln == "": note("ws", (text, width, ic, so, lines))
print("fill", n, dict(bad), ex)

# semantic wrapper
bad.clear(); ex.clear(); n = 0
W = ["aa", "bb.", "Cc", "dddd.", "e", "ffffffff", "gg!", "hh"]
for nw in range(0, 6):
  for tup in itertools.product(W, repeat=nw):
    text = " ".join(tup)
    for width in (1, 5, 9, 12, 25, 30):
      for ii, si in (("", ""), ("- ", "  "), ("> ", "> ")):
        n += 1
        r = line_wrap_by_sentence(width=width, is_markdown=True)(text, ii, si)
        lines = r.split("\n") if r else []
        body = []
        for i, ln in enumerate(lines):
            p = ii if i == 0 else si
            if not ln.startswith(p): note("indent", (text, width, ii, si, r)); break
            body.append(ln[len(p):])
        else:
            if " ".join(body).split() != list(tup): note("lossy", (text, width, ii, si, r))
            for i, ln in enumerate(lines):
                if len(ln) > width and " " in body[i]: note("too_long", (text, width, ii, si, r))
            # breaks only at sentence end or width-forced
            for i in range(len(body) - 1):
                last = body[i].split()[-1]; nxt = body[i + 1].split()[0]
                p = si if i + 1 else ii
                forced = len(lines[i]) + 1 + len(nxt) > width
                if not heuristic_end_of_sentence(last) and not forced: note("unjustified_break", (text, width, ii, si, r))
            # every sentence end followed by break unless line so far short
            for i, b in enumerate(body):
                ws = b.split()
                acc = ""
                for j, w_ in enumerate(ws[:-1]):
                    acc = (acc + " " + w_).strip()
                    if heuristic_end_of_sentence(w_) and len(acc) >= 20: note("missing_break", (text, width, ii, si, r))
print("semantic", n, dict(bad)); 
for k, v in ex.items(): print(k, v)
