import sys, collections, re
from hypothesis import given, settings, seed, HealthCheck, strategies as st, Phase
import gen
from canon import canon_doc
from flowmark import reformat_text
cnt = collections.Counter(); ex = {}
TAG = re.compile(r"\{%.*?%\}|\{#.*?#\}|\{\{.*?\}\}|<!--.*?-->", re.S)
def lits(c, out):
    if isinstance(c, tuple):
        if c and c[0] == "code" and len(c) == 4: out.append(("codeblock", c[1], c[2], c[3])); return
        if c and c[0] == "code" and len(c) == 2: out.append(c); return
        if c and c[0] in ("html", "url", "autolink", "fnref"): out.append(c); return
        if c and c[0] in ("link", "img"): out.append((c[0], c[1], c[2])); lits(c[3], out); return
        if c and c[0] == "def": out.append(c); return
        for x in c: lits(x, out)
    elif isinstance(c, str):
        for m in TAG.finditer(c): out.append(("tag", re.sub(r"\s+", " ", m.group(0))))
feat = gen.ALL - {"link_angle", "code_inner_tick"}
@settings(max_examples=int(sys.argv[1]), deadline=None, database=None, suppress_health_check=list(HealthCheck), phases=[Phase.generate])
@seed(13)
@given(gen.doc(feat), st.sampled_from([0, 15, 40, 88]), st.booleans())
def t(d, w, sem):
    if d.lstrip().startswith("---"): return
    cnt["n"] += 1
    o = reformat_text(d, width=w, semantic=sem, cleanups=True, smartquotes=True, ellipses=True)
    a, b = [], []
    lits(canon_doc(d), a); lits(canon_doc(o), b)
    if a != b:
        cnt["bad"] += 1
        # first diff
        for i, (x, y) in enumerate(zip(a, b)):
            if x != y: key = (x[0], y[0]); break
        else: key = ("len", len(a), len(b))
        cnt[str(key)] += 1; ex.setdefault(str(key), (d, w, sem, o, a[:6], b[:6]))
t()
print(dict(cnt))
for k, v in list(ex.items())[:6]: print("==", k); [print("    ", repr(x)[:500]) for x in v]
