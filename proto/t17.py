"""Prototype: enumerate crash/error points for cli.main --inplace via audit hook in forked children."""
import sys, os, io, errno, shutil, tempfile
from pathlib import Path
STATE = {"on": False, "k": None, "mode": None, "n": 0, "root": None, "trace": []}
def hook(ev, args):
    if not STATE["on"]: return
    if ev in ("open", "os.rename", "os.mkdir", "os.remove", "os.truncate", "shutil.move", "shutil.copyfile", "os.rmdir", "os.link", "os.symlink", "os.chmod"):
        a = [str(x) for x in args[:2]]
        if not any(x.startswith(STATE["root"]) for x in a): return
        STATE["n"] += 1
        STATE["trace"].append((ev, a))
        if STATE["k"] == STATE["n"]:
            if STATE["mode"] == "crash": os._exit(137)
            raise OSError(errno.ENOSPC, "injected")
sys.addaudithook(hook)
from flowmark import cli, reformat_text

def scenario(root, backup):
    p = Path(root) / "doc.md"; old = "Hello   world.  This is   a test.\n\n- a\n\n- b\n"
    p.write_text(old); return p, old

def run_child(k, mode, backup):
    root = tempfile.mkdtemp(prefix="c14_", dir="/tmp/scratch/c14")
    p, old = scenario(root, backup)
    new = reformat_text(old, semantic=False, cleanups=False)
    pid = os.fork()
    if pid == 0:
        os.chdir(root)
        STATE.update(on=True, k=k, mode=mode, n=0, root=root, trace=[])
        try:
            rc = cli.main(["--inplace"] + ([] if backup else ["--nobackup"]) + [str(p)])
        except BaseException:
            rc = 99
        STATE["on"] = False
        os.write(3, b"") if False else None
        with open(os.path.join(root, "_trace"), "w") as f: f.write(repr((rc, STATE["n"])))
        os._exit(0)
    _, status = os.waitpid(pid, 0)
    cur = p.read_text() if p.exists() else None
    orig = (Path(str(p) + ".orig").read_text() if Path(str(p) + ".orig").exists() else None)
    tr = Path(root, "_trace").read_text() if Path(root, "_trace").exists() else None
    ok = cur in (old, new) or (backup and cur is None and orig == old)
    others = sorted(x for x in os.listdir(root) if x not in ("doc.md", "_trace"))
    shutil.rmtree(root)
    return ok, cur == new, status, tr, others

for backup in (False, True):
    ok, isnew, st_, tr, others = run_child(None, None, backup)
    n = eval(tr)[1]; print("backup", backup, "ops", n, "fault-free new:", isnew, others)
    for mode in ("error", "crash"):
        for k in range(1, n + 1):
            ok, isnew, st_, tr, others = run_child(k, mode, backup)
            print(f"  {mode} at op {k}: ok={ok} new={isnew} exit/trace={tr} leftovers={others}")
