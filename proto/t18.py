"""Prototype C06 wrapper-level oracle."""
import sys, collections, re
from hypothesis import given, settings, seed, HealthCheck, strategies as st, Phase
from flowmark import line_wrap_to_width, line_wrap_by_sentence
WORDS = ["alpha", "beta", "it", "a", "word", "longerword", "x", "42", "of"]
ATOMS = {
 "tag": ["{% tag %}", "{% /tag %}", '{% field kind="string" label="A b c" %}', "{%- trim -%}", "{% if x > 3 %}"],
 "var": ["{{ var }}", "{{ a | f('x y') }}"],
 "jcomment": ["{# a comment here #}"],
 "hcomment": ["<!-- a comment here -->", "<!--c-->", "<!-- /f -->"],
 "html": ["<b>", "</b>", '<span class="a b">', "<br/>", '<a href="x y" title=\'t u\'>'],
 "code": ["`code`", "`a b c`", "``a ` b``", "`<b> x`", "`[x] (y)`"],
 "link": ["[link text here](http://example.com/a)", "[a](u \"t i t\")", "![img alt](http://e.x/i.png)", "[ref text][ref]", "[*em x* `c d`](u)"],
}
ALL = [(k, a) for k, v in ATOMS.items() for a in v]
tok = st.one_of(st.sampled_from(WORDS).map(lambda w: ("w", w)), st.sampled_from(WORDS).map(lambda w: ("w", w)), st.sampled_from(ALL))
seq = st.lists(st.tuples(tok, st.sampled_from([" ", " ", " ", "", "\n"])), min_size=1, max_size=14)
cnt = collections.Counter(); ex = {}
def norm(a): return re.sub(r"\s+", " ", a)
@settings(max_examples=int(sys.argv[1]), deadline=None, database=None, suppress_health_check=list(HealthCheck), phases=[Phase.generate])
@seed(3)
@given(seq, st.integers(1, 60), st.booleans(), st.sampled_from([("", ""), ("- ", "  "), ("> ", "> ")]))
def t(items, width, sem, ind):
    # adjacency only between two atoms of tag/comment kinds (documented case) or atom/word punctuation? keep: "" only between tag-like atoms
    toks = []; seps = []
    for i, ((k, a), sep) in enumerate(items):
        toks.append((k, a))
        if i + 1 < len(items):
            k2 = items[i + 1][0][0]
            if sep == "" and not (k in ("tag", "var", "jcomment", "hcomment") and k2 in ("tag", "var", "jcomment", "hcomment")): sep = " "
            seps.append(sep)
    text = "".join(a + (seps[i] if i < len(seps) else "") for i, (k, a) in enumerate(toks))
    wr = (line_wrap_by_sentence if sem else line_wrap_to_width)(width=width, is_markdown=True)
    out = wr(text, *ind)
    cnt["n"] += 1
    lines = out.split("\n")
    # locate atoms in order
    flat = out; pos = 0
    for i, (k, a) in enumerate(toks):
        if k == "w": 
            j = flat.find(a, pos)
            if j < 0: cnt["word_lost"] += 1; ex.setdefault("word_lost", (text, width, sem, ind, out)); return
            pos = j + len(a); continue
        j = flat.find(a, pos)
        if j < 0:
            cnt["atom_split_or_altered:" + k] += 1; ex.setdefault("atom:" + k + str(sem), (text, width, sem, ind, out)); return
        # separator class to previous token
        if i > 0:
            between = flat[pos:j]
            want = seps[i - 1]
            if want == "" and between != "": cnt["adjacent_separated"] += 1; ex.setdefault("adjsep", (text, width, sem, ind, out))
            if want != "" and between.strip(" \n>") == "" and between == "": cnt["separated_joined"] += 1; ex.setdefault("sepjoin" + str(sem), (text, width, sem, ind, out))
        pos = j + len(a)
t()
print(dict(cnt))
for k, v in ex.items(): print("==", k); [print("    ", repr(x)) for x in v]
