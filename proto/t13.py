import sys, random
sys.argv = ["x"]
exec(open("t12.py").read().split("docs = [")[0])
# mutation: cache the Markdown object + honour _setup_done (shared parser/renderer)
import flowmark.linewrapping.markdown_filling as mf
import flowmark.formats.flowmark_markdown as fmm
orig = fmm.flowmark_markdown
cache = {}
def cached(line_wrapper=None, list_spacing=fmm.ListSpacing.preserve):
    key = list_spacing
    if key not in cache:
        m = orig(lambda t, a, b: cur[0](t, a, b), list_spacing)
        m._setup_extensions()
        p, r = m.parser, m.renderer
        m._setup_extensions = lambda: None
        cache[key] = m
    cur[0] = line_wrapper
    return cache[key]
cur = [None]
mf.flowmark_markdown = cached
docs = [(("# A\n\n- one [x]\n- two\n\n[x]: http://a.b\n\nPara with `code` and more words here to wrap around the line. Another one!\n",), dict(width=30)),
        (("> quote text that is long enough to wrap. Yes.\n\n1. a\n2. b\n\n| t | u |\n|---|---|\n| 1 | 2 |\n\nfoot[^1]\n\n[^1]: note\n",), dict(width=30))]
solo = [reformat_text(*a, **k) for a, k in docs]
print("sequential history check:", [reformat_text(*a, **k) for a, k in docs] == solo)
rnd = random.Random(1); bad = 0
for it in range(30):
    sched = [(rnd.randrange(2), rnd.randrange(1, 40)) for _ in range(400)]
    res, sw = run(docs, sched)
    if res != solo: bad += 1
print("interleavings detecting shared renderer:", bad, "/ 30")
print(len(cache), cache)
sched = [(i % 2, 3) for i in range(4000)]
res, sw = run(docs, sched)
print("switches", sw, res == solo)
for r, s_ in zip(res, solo):
    if r != s_: print(repr(r)[:300]); print(repr(s_)[:300])
import flowmark.formats.flowmark_markdown as F
log = []
import threading as th
orig_rp = F.MarkdownNormalizer.render_paragraph
def rp(self, el):
    log.append((th.current_thread().name, id(self), self._prefix))
    return orig_rp(self, el)
F.MarkdownNormalizer.render_paragraph = rp
res, sw = run(docs, sched)
print(log)
